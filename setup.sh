#!/usr/bin/env bash
# MANIFEST.setup_cmd: offline build of every harness profile from files on disk.
set -eu
cd "$(dirname "$0")"
export CARGO_NET_OFFLINE=true
H=harness; T=target; mkdir -p $T
( cd $H && RUSTFLAGS="--cfg lexpr_verif" cargo build --offline --quiet --profile mon --target-dir ../$T/mon --bin vcheck )
( cd $H && RUSTFLAGS="--cfg lexpr_verif" cargo build --offline --quiet --profile mon --no-default-features --target-dir ../$T/nofast --bin vcheck )
( cd $H && cargo build --offline --quiet --profile release --target-dir ../$T/rel --bin vcheck )
( cd $H && cargo build --offline --quiet --profile dev --target-dir ../$T/dev --bin vcheck )
echo "setup ok"
