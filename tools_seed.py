#!/usr/bin/env python3
"""Seeded-change tooling.

  tools_seed.py confirm <dir-with-patch.diff,demo_test.rs,meta.json> <id>
      confirm independently, in a scratch worktree outside /repo and /verif, that the change
      applies, compiles, keeps the existing test-suite green, and that the demonstration fails
      with it and passes without it; on success store it as /verif/seeded/<id>/.
  tools_seed.py run <id> [quick|thorough] [property ...]
      apply /verif/seeded/<id>/patch.diff to /repo, run the check(s), undo the change straight
      afterwards, and record the outcome in /verif/seeded/<id>/result.json. Evidence files are
      restored afterwards (evidence must describe the unchanged tree).
  tools_seed.py runall [quick|thorough]
"""
import json, os, shutil, subprocess, sys, time

REPO = "/repo"
VERIF = "/verif"
ENV = dict(os.environ, CARGO_NET_OFFLINE="true", CARGO_TERM_COLOR="never")


def sh(cmd, cwd=None, timeout=3600):
    p = subprocess.run(cmd, shell=True, cwd=cwd, env=ENV, capture_output=True, text=True, timeout=timeout)
    return p.returncode, p.stdout + p.stderr


def confirm(src, sid):
    meta = json.load(open(f"{src}/meta.json"))
    crate = meta.get("demo_crate", "lexpr")
    prop = meta["property"]
    feat = " --features sexp-macro" if prop == "C09" else ""
    wt = f"/tmp/confirm-{sid}"
    sh(f"git -C {REPO} worktree remove --force {wt}")
    rc, out = sh(f"git -C {REPO} worktree add -q --detach {wt} HEAD")
    if rc != 0:
        print("worktree failed", out)
        return False
    ok = False
    log = {}
    try:
        shutil.copy(f"{REPO}/Cargo.lock", f"{wt}/Cargo.lock")
        demo_dst = f"{wt}/{crate}/tests/demo_test.rs"
        shutil.copy(f"{src}/demo_test.rs", demo_dst)
        # without the change: demo passes
        rc, out = sh(f"cargo test --offline -p {crate} --test demo_test{feat}", cwd=wt)
        log["demo_without_change"] = "pass" if rc == 0 else "FAIL"
        if rc != 0:
            print(sid, "demo fails on the unmodified tree:\n", out[-1500:])
            return False
        rc, out = sh(f"git apply {os.path.abspath(src)}/patch.diff", cwd=wt)
        log["applies"] = rc == 0
        if rc != 0:
            print(sid, "patch does not apply:", out[-500:])
            return False
        os.remove(demo_dst)
        rc, out = sh("cargo test --workspace --offline", cwd=wt)
        log["existing_tests_with_change"] = "pass" if rc == 0 else "FAIL"
        if rc != 0:
            print(sid, "existing tests fail with the change:\n", out[-1500:])
            return False
        shutil.copy(f"{src}/demo_test.rs", demo_dst)
        rc, out = sh(f"cargo test --offline -p {crate} --test demo_test{feat}", cwd=wt)
        log["demo_with_change"] = "fail" if rc != 0 else "PASSES (not a demonstration)"
        if rc == 0:
            print(sid, "demo passes with the change: not a demonstration")
            return False
        ok = True
    finally:
        sh(f"git -C {REPO} worktree remove --force {wt}")
        shutil.rmtree(wt, ignore_errors=True)
    dst = f"{VERIF}/seeded/{sid}"
    os.makedirs(dst, exist_ok=True)
    shutil.copy(f"{src}/patch.diff", f"{dst}/patch.diff")
    shutil.copy(f"{src}/demo_test.rs", f"{dst}/demo_test.rs")
    meta["confirmed_by_harness_author"] = log
    meta["confirm_cmds"] = [
        "git worktree add /tmp/confirm-<id> HEAD; cp demo_test.rs <crate>/tests/",
        f"cargo test --offline -p {crate} --test demo_test{feat}   # passes on the unmodified tree",
        "git apply patch.diff; cargo test --workspace --offline   # existing suite stays green",
        f"cargo test --offline -p {crate} --test demo_test{feat}   # fails with the change",
    ]
    json.dump(meta, open(f"{dst}/meta.json", "w"), indent=1)
    print(sid, "confirmed ->", dst)
    return ok


def run(sid, tier="quick", props=None):
    d = f"{VERIF}/seeded/{sid}"
    meta = json.load(open(f"{d}/meta.json"))
    if meta.get("obsolete"):
        print(sid, "skipped (obsolete):", meta["obsolete"][:80])
        return
    props = props or [meta["property"]]
    rc, out = sh(f"git -C {REPO} status --porcelain --untracked-files=no")
    if out.strip():
        print("refusing: /repo has local modifications")
        return
    results = {}
    # keep the evidence of the unchanged tree
    backup = f"/tmp/evidence-backup-{os.getpid()}"
    shutil.copytree(f"{VERIF}/evidence", backup)
    try:
        rc, out = sh(f"git -C {REPO} apply {d}/patch.diff")
        if rc != 0:
            print(sid, "patch no longer applies to /repo:", out[-300:])
            results["error"] = "patch does not apply"
        else:
            for p in props:
                t0 = time.time()
                rc, out = sh(f"./check {p} {tier}", cwd=VERIF, timeout=7200)
                sigs = sorted({l.strip().split(" :: ")[0] for l in out.splitlines() if l.startswith("  " + p + ":")})
                nviol = sum(1 for l in out.splitlines() if l.startswith("VIOLATION"))
                results[p] = {"tier": tier, "exit": rc, "violation_lines": nviol, "signatures": sigs[:12], "wall_s": round(time.time() - t0, 1),
                              "detected": rc == 1}
                print(f"{sid} {p} {tier}: exit={rc} violations={nviol} {sigs[:3]}")
    finally:
        sh(f"git -C {REPO} checkout -- .")
        shutil.rmtree(f"{VERIF}/evidence")
        shutil.copytree(backup, f"{VERIF}/evidence")
        shutil.rmtree(backup, ignore_errors=True)
    rf = f"{d}/result.json"
    old = json.load(open(rf)) if os.path.exists(rf) else {}
    old.update({f"{p}:{tier}": r for p, r in results.items()} if "error" not in results else results)
    json.dump(old, open(rf, "w"), indent=1)


if __name__ == "__main__":
    if sys.argv[1] == "confirm":
        sys.exit(0 if confirm(sys.argv[2], sys.argv[3]) else 1)
    elif sys.argv[1] == "run":
        tier = sys.argv[3] if len(sys.argv) > 3 else "quick"
        run(sys.argv[2], tier, sys.argv[4:] or None)
    elif sys.argv[1] == "runall":
        tier = sys.argv[2] if len(sys.argv) > 2 else "quick"
        for sid in sorted(os.listdir(f"{VERIF}/seeded")):
            if os.path.exists(f"{VERIF}/seeded/{sid}/patch.diff"):
                run(sid, tier)
