#!/usr/bin/env python3
"""Validate MANIFEST.json and evidence/*.json against the given schemas (python3-vt has jsonschema)."""
import json, sys, glob, jsonschema
ok = True
m = json.load(open('/verif/MANIFEST.json')) if len(sys.argv) < 2 or sys.argv[1] != '--evidence-only' else None
if m is not None:
    jsonschema.validate(m, json.load(open('/root/.vp/MANIFEST.schema.json')))
    print("MANIFEST ok:", len(m['checks']), "checks")
es = json.load(open('/root/.vp/EVIDENCE.schema.json'))
for f in sorted(glob.glob('/verif/evidence/*.json')):
    try:
        e = json.load(open(f)); jsonschema.validate(e, es)
        print(f, "ok", e['tier'], e['coverage'].get('evaluations'), e['coverage'].get('distinct_nontrivial'), e.get('verdict'))
    except Exception as ex:
        ok = False; print(f, "INVALID", str(ex)[:300])
sys.exit(0 if ok else 1)
