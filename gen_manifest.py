#!/usr/bin/env python3
"""Writes MANIFEST.json. The list DONE names the properties whose checks exist."""
import json, subprocess
DONE = {
 "C01": ("exploration", "differential round-trip monitor (9 print x 9 parse entry points) + independent R7RS reference reader",
         "Values from a generator covering all 11 kinds, every char class, boundary integers and doubles by shape of their shortest form are printed through every print entry point (bytes must agree) and re-read through every parse entry point (structural equality, floats by the C05 rule of the build); an independent reference reader must read the same datum. Both feature builds. Thorough enumerates every Unicode scalar value. Exploration: the space is infinite, the defect classes are per-leaf-class and are each hit thousands of times.",
         "trusted: the harness's reference reader and value comparator; Rust's f64 parser as correctly rounded", "4/C01"),
 "C05": ("exploration", "numeric oracle monitor: bignum + correctly rounded f64 + exactness/accuracy/range clauses per literal",
         "Every literal is scanned by the harness itself into (radix, sign, digits, fraction, exponent); a bignum gives the exact value and Rust's correctly rounding parser the nearest double; the clause that applies (exact integer / exact double / 2^-50 accuracy / out of range) is decided on the literal text and compared with what the parser returned, in both feature builds. All 64-bit boundaries are enumerated in 4 radixes; doubles are re-spelled 7 ways.",
         "trusted: Rust's str::parse::<f64>; the 60-line bignum (unit tested); tolerance 2^-50+2^-52 (never stricter than the statement)", "4/C05"),
 "C15": ("exploration", "reference-model monitor: every list accessor against a Vec model (xs, t)",
         "Lists are built by five routes (Value::list, append, nested cons, From<(T,U)>, parser) from a known element vector and tail; each accessor, iterator protocol (incl. peek/is_empty), index and alist lookup is compared with the model; indexing of arbitrary values must not panic.",
         "trusted: the Vec model and its tail-merging normalisation", "4/C15"),
 "C20": ("exploration", "payload-model differential monitor over accessors, conversions and comparisons",
         "Every value is built from a known Rust payload through every From/constructor path; a 40-line payload model decides each accessor and each ==. Runs the real code on boundary tables for all eight integer widths, f32/f64 incl. non-finite, strings, bytes, compound values. Exploration is the right level: the input space is unbounded but the defect classes (range tests, sign handling, cross-kind comparisons) live at enumerable boundaries.",
         "trusted: Rust `as` casts as the definition of nearest double; the harness payload model", "4/C20"),
}
props = [json.loads(l) for l in open('/verif/properties.jsonl')]
hooks = subprocess.run(["git","-C","/repo","log","--format=%H","--grep=^verif hooks"],capture_output=True,text=True).stdout.split()
checks=[]; na=[]
for p in props:
    i=p['id']
    if i in DONE:
        lvl,tech,text,note,ref=DONE[i]
        checks.append({
          "property_id": i,
          "quick_cmd": f"./check {i} quick",
          "thorough_cmd": f"./check {i} thorough",
          "evidence_file": f"/verif/evidence/{i}.json",
          "replay_cmd_template": f"./check {i} --replay {{path}}",
          "engine": "vcheck",
          "level_claimed": {"category": lvl, "text": text, "design_ref": f"DESIGN.md section {ref}"},
          "level_note": note,
          "technique": "runtime monitoring: " + tech,
        })
    else:
        na.append({"property_id": i, "reason": "check not built yet (work in progress; runtime monitoring applies, see DESIGN.md section 4)"})
m={
 "version":1,
 "setup_cmd":"./setup.sh",
 "hooks":{"guard":"lexpr_verif","enable":"RUSTFLAGS=\"--cfg lexpr_verif\" (set by ./check for the mon/nofast harness builds)",
          "baseline_off_cmd":"cd /repo && (cargo nextest run --workspace --no-fail-fast --offline || cargo test --workspace --no-fail-fast --offline)",
          "source_commits":hooks,"add_only":True},
 "engines":[{"name":"vcheck","path":"/verif/harness/vh","serves_properties":sorted(DONE),"kind_free_text":"Rust harness linking the real lexpr / serde-lexpr crates from /repo's working tree; generators, reference models, I/O doubles, child-process crash monitors, hook readers"}],
 "checks":checks,
 "notes":"Verdicts are three-valued: exit 0 held on what was observed, exit 1 VIOLATION, exit 2 inconclusive (never prints VIOLATION). known_findings.json lists recorded genuine defects by narrow signature.",
 "not_applicable":na,
}
json.dump(m,open('/verif/MANIFEST.json','w'),indent=1)
print("checks:",len(checks),"not claimed:",len(na))
