#!/usr/bin/env python3
"""Writes MANIFEST.json. The list DONE names the properties whose checks exist."""
import json, subprocess
DONE = {
 "C09": ("exploration", "generated-crate differential: compiled sexp! invocations vs lexpr::from_str of the equivalent text",
         "The harness generates a crate with 500 (quick) / 6000 (thorough) sexp! invocations over the documented syntax (every atom form, punctuation symbols in every position, dotted lists with list tails that must flatten, vectors, unquotes of 24 From types incl. as dotted tail), builds it offline against /repo/lexpr with the sexp-macro feature and runs it; the program compares each macro value with the parse of the equivalent text (unquotes substituted by Value::from(expr)). Compile errors are attributed to invocations by source line and reported as violations.",
         "trusted: rustc/cargo; the harness's rendering of the equivalent text", "4/C09"),
 "C16": ("exploration", "child-process crash monitor: exit status of each list operation on a fixed-size thread stack; minimal-stack bisection n=10^3 vs 10^6",
         "36 list-walking operations of the public API (parse, next_datum, print, Display, to_vec family, iterators, get/index, predicates, clone, ==, drop, Datum clone/==/drop/walk/into-value, serde to_value/from_value/to_string/from_str), on proper and dotted lists built by constructors, parser and Serde, each run in its own child process of the hook-free release and dev builds on a 2 MiB thread with 10^6 (thorough: also 4x10^6) elements; the exit status (normal / SIGSEGV / SIGABRT 'has overflowed its stack') is the observation. Thorough bisects the minimal stack for 10^3 elements and requires 10^6 elements to fit in that + 32 KiB.",
         "trusted: exit-status interpretation; results are specific to this toolchain's frame sizes, the verdict only needs 'does not grow with n'", "4/C16"),
 "C04": ("exploration", "Rust-side equality monitor over a 67-type Serde family through four serialization routes",
         "Each of 67 concrete types (every Serde data-model category plus the shape-ambiguous nestings) has a recursive generator; values go through to_value/from_value (NaN and infinities included, compared by bits) and through text with the default printer/parser via str, bytes and writer/reader (finite floats, C05 rule) and must come back equal on the Rust side.",
         "trusted: serde_derive; per-type equality functions", "4/C04"),
 "C14": ("exploration", "documented-shape differential: to_value(x) vs a hand-written shape function; alternative and corrupted encodings at every Seq/Tuple position",
         "For each type of the family a shape function written from the crate documentation yields an annotated tree; its canonical rendering must equal to_value(x) structurally. For sampled Seq/Tuple positions the documented alternative encoding (vector for sequence, proper list for tuple) must deserialize to x, and an improper list or a wrong kind in that position must fail with a Data-category error without panicking.",
         "trusted: the shape functions' transcription of the documentation", "4/C14"),
 "C18": ("exploration", "totality monitor: catch_unwind + error-category check + serialize/deserialize fixed point on every accepted value",
         "Arbitrary values and near misses (1-3 structural mutations of a valid encoding) are offered to from_value::<T> for every type of the family: a panic inside the library is a violation, an Err must be Data-category, and an accepted x must satisfy from_value(to_value(x)) == x (accepted alternative encodings are counted as normalised).",
         "trusted: panic classification by source location, or by the innermost lexpr/serde_lexpr/harness stack frame for panics raised inside core/std", "4/C18"),
 "C13": ("exploration", "parse/print/parse/print fixed-point monitor over accepted texts with the mirror printer options",
         "Arbitrary generated text (token soup, lenient symbol constituents, alternative spellings, mutated printer output) is offered to the parser under option sets drawn from all 1536; every accepted text is printed with the corresponding printer options, re-read with the same parser (must equal the folded value, floats by the C05 rule) and, when all floats are in the reader's exact domain, printed again (must be the same text). A lenient-token corpus is additionally crossed with all 1536 option sets. Both feature builds; at least 10% of inputs must be accepted.",
         "trusted: mirror(Q) as the meaning of 'corresponding printer options'", "4/C13"),
 "C08": ("exploration", "declarative token-classifier monitor + metamorphic option non-interference grouping over all 1536 parser option sets",
         "A corpus of ~190 tokens (every class and its near misses) is placed in 12 syntactic contexts and read under every one of the 1536 option sets. (a) A classifier written from the option documentation says what each reading must be (or that it must be an error / must not be a number / is unspecified). (b) Independently, option sets that agree on all options the input exercises (an over-approximated relation) are grouped and must give identical results.",
         "trusted: the classifier's reading of the documentation (Unspecified where silent); the exercise relation is an over-approximation on this corpus", "4/C08"),
 "C02": ("exploration", "reference-model monitor: fold(v,P,Q) vs parse_Q(print_P(v)) over all 576 printer sets x compatible parser sets + independent Emacs Lisp reference reader",
         "fold() encodes the documented dialect folding (nil/t/false/empty-bytes); for every printer option set and the parser option sets that recognise its output (all ~83k pairs in thorough, 6 sampled per printer set in quick) generated values with names plain for the pair must read back as fold(v); the elisp()/elisp() pair is additionally read by an independent reader of the documented Emacs Lisp subset.",
         "trusted: fold(), the compatibility predicate, the Emacs Lisp reference reader", "4/C02"),
 "C10": ("exploration", "differential monitor: next_value vs next_datum item sequences + lock-step Ref-accessor walk against Value accessors",
         "On generated, malformed and layout-rich inputs with option sets drawn from all 1536 and three sources, the item sequences of the two APIs are compared item by item (value, first error incl. message and location, end of input); every sub-datum reachable through list_iter/vector_iter/as_pair is walked with the Ref accessors in lock-step with the Value accessors (peek, is_empty, the None/tail/None protocol, pointer identity of exposed values).",
         "trusted: the lock-step walker", "4/C10"),
 "C11": ("exploration", "span-geometry monitor with slice re-parse oracle and cross-source span equality",
         "For every top-level datum and every reachable sub-datum: the span maps into the input through the harness's own line/byte-column map, is non-empty, inside the parent's span, after its preceding sibling, and the covered text re-parsed alone with the same options equals the sub-datum (quote-shorthand heads cover the sigil); the span trees from &str, &[u8] and a stream are compared. Layouts contain CR/LF/TAB/FF/comments and non-ASCII text before datums.",
         "trusted: the offset map (LF-separated lines, byte columns)", "4/C11"),
 "C12": ("exploration", "sequence differential over four iteration styles + metamorphic trivia insertion + call-history termination monitor (item bound, fuel, span progress)",
         "Value sequences are printed, joined with random trivia over {space, tab, CR, LF, FF, comments} and re-read through four iteration styles and three sources, which must agree with each other and with the original sequence; the same token sequence under two independent trivia draws must read identically; over arbitrary input every iteration style and random call histories on one parser (continuing after errors) are bounded by len+2 items, by the hook step counter and by monotone non-empty datum spans. Both feature builds.",
         "trusted: the harness's rule for where a separator is required; item bound len+2 as the definition of non-termination", "4/C12"),
 "C19": ("exploration", "error-location geometry monitor + exhaustive proper-prefix truncation monitor",
         "Every Syntax/Eof error from three sources is checked against line/column bounds computed from the input, and its io::Error conversion against the documented kind; for every proper byte prefix of every well-formed single-datum text (fixed corpus covering every token kind, printer and layout output, default/Emacs/sampled option sets) a failing prefix must be an EOF-category error. Remaining genuine defects are listed in known_findings.json by lexer site.",
         "trusted: line = LF-separated segment, column = 0-based byte offset (as documented)", "4/C19"),
 "C03": ("exploration", "panic / step-counter (fuel) / recursion-depth-gauge / budget-restored invariant hooks + child-process crash monitor",
         "Every parse call is observed by catch_unwind (the monitoring build turns integer overflow into a panic), by the hook step counter (termination decided on logical steps, never wall-clock), by the recursion-depth gauge (bounded recursion seen as a number) and by the nesting-budget accessor (restored to 128 after every call, Ok or Err, across call histories of up to 300 calls on one parser). All byte strings of length <= 2 and all length-3 strings over a 52-byte alphabet are enumerated; 10^6-deep nests of 14 opener kinds run in child processes on a 2 MiB stack whose exit status is the observation.",
         "trusted: hooks tick in every scanning loop; exit-status interpretation of stack overflow", "4/C03"),
 "C06": ("fault_enumeration", "three-way source differential + exact read-fault oracle from a counting twin run, hard error injected at every byte offset",
         "Same bytes through &str, &[u8] and ten stream schedules (1-byte, random, whole, BufReader caps 1/2/3/8, with Interrupted injection) for four APIs must give the same outcome (value, or category+message+source). For the fault clause a hard error is injected at every offset 0..=len of every input; a fault-free twin through a counting reader tells whether the parser asks for the faulted byte; if it does, the result must be an Io error carrying the injected error unless a perturbation test shows the delivered prefix already determines the outcome.",
         "trusted: parser determinism on identical prefixes; the perturbation set used to decide 'outcome already determined'", "4/C06"),
 "C07": ("fault_enumeration", "instrumented io::Write doubles: short-write schedules and a hard error / zero-acceptance injected at every output offset",
         "The String from to_string_custom is the reference text; each io::Write entry point must deliver exactly those bytes through sinks that accept 1,2,3,7 or random bytes per call or return Interrupted, and must return Err with the delivered bytes a prefix of the text when the sink fails or returns Ok(0) at offset k, for every k in 0..=len (exhaustive per value and option set; all 576 printer option sets in thorough).",
         "trusted: to_string_custom as reference text", "4/C07"),
 "C17": ("exploration", "creation-site validity hook before each from_utf8_unchecked + re-validation of every returned str + Miri on a fixed slice",
         "Under --cfg lexpr_verif a check immediately before each of the five unchecked conversions panics on ill-formed bytes; every str reachable from every parse result (value and datum APIs, three sources) and every printed String is re-validated; raw ill-formed sequences (all 65536 two-byte sequences, class x boundary grids for 3-4 bytes) placed inside strings, symbols, keywords and characters must be rejected. Thorough additionally runs 480 inputs under Miri (cargo +nightly miri run, 16 shards).",
         "trusted: std::str::from_utf8; hook placement; Miri's UB model for the interpreted slice", "4/C17"),
 "C01": ("exploration", "differential round-trip monitor (9 print x 9 parse entry points) + independent R7RS reference reader",
         "Values from a generator covering all 11 kinds, every char class, boundary integers and doubles by shape of their shortest form are printed through every print entry point (bytes must agree) and re-read through every parse entry point (structural equality, floats by the C05 rule of the build); an independent reference reader must read the same datum. Both feature builds. Thorough enumerates every Unicode scalar value. Exploration: the space is infinite, the defect classes are per-leaf-class and are each hit thousands of times.",
         "trusted: the harness's reference reader and value comparator; Rust's f64 parser as correctly rounded", "4/C01"),
 "C05": ("exploration", "numeric oracle monitor: bignum + correctly rounded f64 + exactness/accuracy/range clauses per literal",
         "Every literal is scanned by the harness itself into (radix, sign, digits, fraction, exponent); a bignum gives the exact value and Rust's correctly rounding parser the nearest double; the clause that applies (exact integer / exact double / 2^-50 accuracy / out of range) is decided on the literal text and compared with what the parser returned, in both feature builds. All 64-bit boundaries are enumerated in 4 radixes; doubles are re-spelled 7 ways.",
         "trusted: Rust's str::parse::<f64>; the 60-line bignum (unit tested); tolerance 2^-50+2^-52 (never stricter than the statement)", "4/C05"),
 "C15": ("exploration", "reference-model monitor: every list accessor against a Vec model (xs, t)",
         "Lists are built by five routes (Value::list, append, nested cons, From<(T,U)>, parser) from a known element vector and tail; each accessor, iterator protocol (incl. peek/is_empty), index and alist lookup is compared with the model; indexing of arbitrary values must not panic.",
         "trusted: the Vec model and its tail-merging normalisation", "4/C15"),
 "C20": ("exploration", "payload-model differential monitor over accessors, conversions and comparisons",
         "Every value is built from a known Rust payload through every From/constructor path; a 40-line payload model decides each accessor and each ==. Runs the real code on boundary tables for all eight integer widths, f32/f64 incl. non-finite, strings, bytes, compound values. Exploration is the right level: the input space is unbounded but the defect classes (range tests, sign handling, cross-kind comparisons) live at enumerable boundaries.",
         "trusted: Rust `as` casts as the definition of nearest double; the harness payload model", "4/C20"),
}
# workloads added after the seeded-change rounds and the coverage measurement (DESIGN.md sections 5.1 and 8)
MORE = {
  "C01": " Added: values shaped like quotation forms; 120-127 enclosing compounds around every kind of leaf; names that look like non-finite floats or case variants of nil/t; exhaustive enumeration of all 147k non-ASCII alphabetic scalars in identifier positions (both tiers); one 65 KiB-1.5 MiB atom followed by more atoms; sinks accepting 1 and 3 bytes per call.",
 "C02": " Added: byte vectors, strings, names, lists and vectors of 2^k-1..2^k+1 elements; 130-420 siblings dominated by one kind of empty compound/atom.",
  "C03": " Added: 40 sigils / token openers and 21 (opener, repeated unit) pairs inside one token repeated 3x10^5 / 10^6 times, default and Emacs options; literals whose written + implied exponent lands within 3 of the i32 limits; 16 un-nested units repeated 2.5x10^5 / 10^6 times (comment lines, blanks, small datums) in child processes; panics raised inside core/std are attributed to the library by backtrace.",
 "C04": " Added: the _custom text routes (all routes must also print the same text); borrowed targets; a 65 KiB-1.2 MiB string followed by more strings; ALL 2^32 f32 bit patterns through to_value/from_value in thorough (2^24 slice in quick); collections of 2^k-1..2^k+1 elements. Round 7: nine more types -- unit-variant enum, tuple and Option as map keys, Option<Option<Option<bool>>>, enum inside Option inside map value, a recursive struct (Nest) holding an enum-keyed map, Vec<(Option<()>, Vec<()>)>.",
  "C05": " Added: exponents padded with 1-30 leading zeros, fractions with 1-45 leading zeros, 70 KB-1 MB literals whose huge exponent is compensated by the digit string; the decimal point at every position of every boundary integer's digits with round-down/half/up tails and exponents.",
  "C06": " Added: faults that are persistent, transient-then-resume or transient-then-EOF in rotation; every named entry point (lexpr::from_*, *_elisp, datum::from_*, Parser::from_* with current and deprecated method names) against its _custom sibling with and without injected faults; is_io/is_syntax/is_eof vs classify(); serde_lexpr stream entry points under faults (category, source chain, io::Error conversion); lead-ins such as BOM/NUL; tokens of 2^k-1..2^k+1 bytes.",
 "C07": " Added: one Printer reused after a transient sink error and for several values (also as io::Write); sizes around powers of two; serde_lexpr::to_writer sink errors must come back as Io-category errors carrying the sink's error.",
  "C08": " Added: five contexts under quotation shorthands with a shape clause independent of the classifier; digit-initial names with a trailing colon; every option set assembled by random routes through the builder API (any constructor, setters in random order, keyword syntaxes as a set with repetitions or one by one): query methods and probe readings must not depend on the route; Options::default()/elisp() against the documented sets; value and datum API compared per (input, option set).",
  "C09": " Added: 14 unquote expression shapes (tuple literal, arithmetic, cast, if, method call, macro call, slice, field) in element/tail/vector positions; every punctuation symbol between, before and after identifiers and numbers; float spellings 1E5 / 1e+5 / 2.5E+3; 20 caller variables with expansion-prone names (tail, head, list, vec, value, ...) in every unquote position of 10 compound shapes. Round 7: 11x11 matrix of atom kinds (#:kw, :kw, #:\"kw\", #\"sym\", identifier, integer, float, string, char, #t, #nil) adjacent to one another and separated by each of 14 punctuation symbols, in lists, vectors, dotted lists and nested lists (~2.6k directed invocations).",
  "C10": " Added: streams that report end of input and then deliver more (four iteration styles polled in parallel); lock-step continuation after errors on two parsers incl. the two nesting budgets; near-limit nesting.",
 "C11": " Added: spans re-read with expect_end() calls interleaved; spans of Datum::clone() and Datum::from(Ref) must equal the original's; line numbers and byte columns beyond 255 / 65535.",
  "C12": " Added: CR inside comment bodies; string literals adjacent to other tokens without trivia; digit-initial names in Emacs-dialect sequences; long flat streams (2x10^5 / 10^6 items or trivia lines) read item by item in child processes of the mon and dev builds with the exact item count as oracle; adaptors polled repeatedly after an error; comment bodies with NUL, FF, ESC, BOM.",
  "C13": " Added: non-finite spellings and radix literals beyond 2^1024 in the accepted-text corpus; second printer choice mirror_alt(Q); every lenient token also under each quotation shorthand and as a dotted tail; near-limit nesting.",
 "C14": " Added: look-alike wrong kinds (the items as a byte vector or string, empty byte vector/string) and the last item as dotted tail; KvMap driving serialize_key/serialize_value separately. Round 7: the nine additional family types of C04 (composite map keys, recursive struct) with their documented shapes.",
  "C15": " Added: constructors fed lazy iterators (filter, from_fn, take_while, skip_while); list-valued keys that are prefixes of one another; lists built through Cons::new + the four mutators; indices 2^k+j (aliases under truncation); names that look like printed forms of other keys; the empty list.",
 "C16": " Added: operations over nil/null/string/pair/quoted/vector elements; eq on lists differing everywhere / at the end; full dotted-pair notation (1 . (1 . ...)).",
  "C17": " Added: ill-formed bytes followed by two or more escapes and plain text; the same parser asked again after each error (str, slice, stream; value and datum); 40 failing prefixes followed by multi-byte characters; tokens whose multi-byte character straddles 128/256/.../8192 bytes; Miri workload 810 inputs incl. resumed parsers and owned datum copies.",
  "C18": " Added: all 2^32 f32 bit patterns (thorough) through the self-consistency clause; 10^6-element lists in skipped positions (unknown struct field, IgnoredAny, Option, map value) in child processes on a 2 MiB stack; deserialize_any-driven targets (serde_json::Value, IgnoredAny, untagged enum) for the totality clause; strings of 60-1030 bytes with multi-byte characters at buffer-size offsets; coherence of the data error object (Display, location, source, io kind). Round 7: the nine additional family types of C04 as deserialization targets.",
 "C19": " Added: signatures carry the set of misreporting entry points; read failures of 8 kinds must come back as Io or as the already-determined outcome; error locations beyond line/column 65535.",
  "C20": " Added: comparisons with views into the value's own text (aliasing); comparison operands 1 and 2 ulp away from the value's as_f64 and the neighbours of its f32 rounding.",
}
for k, extra in MORE.items():
    lvl, tech, text, note, ref = DONE[k]
    DONE[k] = (lvl, tech, text + extra, note, ref)
props = [json.loads(l) for l in open('/verif/properties.jsonl')]
hooks = subprocess.run(["git","-C","/repo","log","--format=%H","--grep=^verif hooks"],capture_output=True,text=True).stdout.split()
checks=[]; na=[]
for p in props:
    i=p['id']
    if i in DONE:
        lvl,tech,text,note,ref=DONE[i]
        checks.append({
          "property_id": i,
          "quick_cmd": f"./check {i} quick",
          "thorough_cmd": f"./check {i} thorough",
          "evidence_file": f"/verif/evidence/{i}.json",
          "replay_cmd_template": f"./check {i} --replay {{path}}",
          "engine": "vcheck",
          "level_claimed": {"category": lvl, "text": text, "design_ref": f"DESIGN.md section {ref}"},
          "level_note": note,
          "technique": "runtime monitoring: " + tech,
        })
    else:
        na.append({"property_id": i, "reason": "check not built yet (work in progress; runtime monitoring applies, see DESIGN.md section 4)"})
m={
 "version":1,
 "setup_cmd":"./setup.sh",
 "hooks":{"guard":"lexpr_verif","enable":"RUSTFLAGS=\"--cfg lexpr_verif\" (set by ./check for the mon/nofast harness builds)",
          "baseline_off_cmd":"cd /repo && (cargo nextest run --workspace --no-fail-fast --offline || cargo test --workspace --no-fail-fast --offline)",
          "source_commits":hooks,"add_only":True},
 "engines":[{"name":"vcheck","path":"/verif/harness/vh","serves_properties":sorted(DONE),"kind_free_text":"Rust harness linking the real lexpr / serde-lexpr crates from /repo's working tree; generators, reference models, I/O doubles, child-process crash monitors, hook readers"}],
 "checks":checks,
 "notes":"Verdicts are three-valued: exit 0 held on what was observed, exit 1 VIOLATION, exit 2 inconclusive (never prints VIOLATION). known_findings.json lists recorded genuine defects by narrow signature.",
 "not_applicable":na,
}
json.dump(m,open('/verif/MANIFEST.json','w'),indent=1)
print("checks:",len(checks),"not claimed:",len(na))
