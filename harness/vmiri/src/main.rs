//! Workload for the undefined-behaviour interpreter (Miri): the paths that end
//! in lexpr's unsafe from_utf8_unchecked sites, on a fixed slice of the C17
//! workload. usage: vmiri <shard> <nshards>
//! Prints `MIRI-DONE inputs=<n> parses=<n> strs=<n>`; any UB aborts the run.

use lexpr::parse::{Options, Parser};
use lexpr::{print, Value};

fn walk(v: &Value, n: &mut u64) {
    match v {
        Value::String(s) | Value::Symbol(s) | Value::Keyword(s) => {
            // touching every char makes Miri validate the str's bytes
            *n += 1;
            let mut k = 0u32;
            for c in s.chars() {
                k = k.wrapping_add(c as u32);
            }
            assert!(std::str::from_utf8(s.as_bytes()).is_ok(), "ill-formed str");
            std::hint::black_box(k);
        }
        Value::Cons(c) => {
            for cell in c.iter() {
                walk(cell.car(), n);
                if !cell.cdr().is_cons() {
                    walk(cell.cdr(), n);
                }
            }
        }
        Value::Vector(xs) => xs.iter().for_each(|x| walk(x, n)),
        _ => {}
    }
}

fn main() {
    let args: Vec<String> = std::env::args().collect();
    let shard: usize = args.get(1).and_then(|s| s.parse().ok()).unwrap_or(0);
    let nshards: usize = args.get(2).and_then(|s| s.parse().ok()).unwrap_or(1);

    let seqs: Vec<Vec<u8>> = vec![
        "λ".into(), "中".into(), "𝒳".into(), vec![0xC2, 0x80], vec![0xF4, 0x8F, 0xBF, 0xBF],
        vec![0xC0, 0x80], vec![0xE0, 0x80, 0x80], vec![0xED, 0xA0, 0x80], vec![0xF4, 0x90, 0x80, 0x80],
        vec![0xFF], vec![0xCE], vec![0xE4, 0xB8], vec![0xF0, 0x9F, 0x98], vec![0x80], vec![0xCE, 0x41],
    ];
    let contexts: Vec<(&[u8], &[u8])> = vec![
        (b"", b"abc"), (b"ab", b"cd"), (b"abc", b""), (b"#:k", b"w"), (b"\"ab", b"cd\""), (b"\"\\n", b"\""),
        (b"\"", b"\\n\""), (b"\"\\x3bb;", b"\""), (b"\"\\u00e9", b"\""), (b"\"\\101", b"\""), (b"#\\", b""),
        (b"?", b""), (b"?\\", b" "), (b"; ", b"\nabc"), (b"#(a ", b"b)"), (b"(\xCE\xBBx \"", b"\" y)"),
    ];
    let mut inputs: Vec<Vec<u8>> = Vec::new();
    for s in &seqs {
        for (pre, suf) in &contexts {
            let mut i = pre.to_vec();
            i.extend_from_slice(s);
            i.extend_from_slice(suf);
            inputs.push(i);
        }
    }
    // escape / multibyte alignment strings (valid UTF-8: these reach the unchecked sites via &str)
    let pieces = ["λ", "中", "𝒳", "a", "\\n", "\\x3bb;", "\\x41;", "\\\\", "\\\"", "\\u00e9", "\\101", "\\xff", "\\N{U+3bb}", " "];
    let mut k = 12345u64;
    for _ in 0..480 {
        let mut s = String::from("(sym-λ \"");
        for _ in 0..(1 + (k >> 60)) {
            k = k.wrapping_mul(6364136223846793005).wrapping_add(1442695040888963407);
            s.push_str(pieces[(k >> 33) as usize % pieces.len()]);
        }
        s.push_str("\" #:kw中 1.5e3 12345678901234567890123 1e400)");
        inputs.push(s.into_bytes());
    }
    // a multi-byte character directly after a prefix that fails part-way through a token:
    // the resumed parser starts wherever the error left the source
    let prefixes = ["#x", "#", "1e", "\"\\", "\"\\x4", "#\\x", "?\\^", "#u8(1", "(a .", "#:", "-", "+.", "1.", "|"];
    for (i, pre) in prefixes.iter().enumerate() {
        for mb in ["é", "中t", "𝒳 "] {
            inputs.push(format!("{}{}{} z", pre, mb, if i % 2 == 0 { "λ" } else { "\" q" }).into_bytes());
        }
    }
    // tokens that cross the initial capacity of the scratch buffer (128) with a
    // multi-byte character on the boundary, copied because of a leading escape
    for at in [125usize, 126, 127, 128] {
        for mb in ["é", "中", "𝒳"] {
            for (open, close) in [("\"\\n", "\""), ("s", ""), ("#:k", ""), ("\"", "\"")] {
                let mut t = String::from(open);
                while t.len() < at {
                    t.push('a');
                }
                t.push_str(mb);
                t.push_str("tail");
                t.push_str(close);
                inputs.push(t.into_bytes());
            }
        }
    }
    let opts = [Options::default(), Options::elisp()];
    let (mut parses, mut strs, mut used) = (0u64, 0u64, 0u64);
    for (idx, input) in inputs.iter().enumerate() {
        if idx % nshards != shard {
            continue;
        }
        used += 1;
        for o in opts {
            let mut results: Vec<Value> = Vec::new();
            if let Ok(v) = lexpr::from_slice_custom(input, o) {
                results.push(v);
            }
            if let Ok(v) = lexpr::from_reader_custom(&input[..], o) {
                results.push(v);
            }
            if let Ok(d) = lexpr::datum::from_slice_custom(input, o) {
                results.push(d.value().clone());
            }
            parses += 3;
            if let Ok(s) = std::str::from_utf8(input) {
                if let Ok(v) = lexpr::from_str_custom(s, o) {
                    results.push(v);
                }
                let mut p = Parser::from_str_custom(s, o);
                while let Ok(Some(d)) = p.next_datum() {
                    results.push(d.value().clone());
                }
                // the same parser kind asked again after each error
                let mut p = Parser::from_str_custom(s, o);
                for _ in 0..8 {
                    match p.next_value() {
                        Ok(Some(v)) => results.push(v),
                        Ok(None) => break,
                        Err(_) => {}
                    }
                }
                let mut p = Parser::from_reader_custom(&input[..], o);
                for _ in 0..8 {
                    match p.next_datum() {
                        Ok(Some(d)) => {
                            // owned copies and their drop
                            let c = d.clone();
                            results.push(lexpr::Value::from(c));
                        }
                        Ok(None) => break,
                        Err(_) => {}
                    }
                }
                parses += 4;
            }
            for v in &results {
                walk(v, &mut strs);
                // print side: both unchecked String conversions
                for po in [print::Options::default(), print::Options::elisp()] {
                    let s = lexpr::to_string_custom(v, po).unwrap();
                    assert!(std::str::from_utf8(s.as_bytes()).is_ok());
                    strs += 1;
                }
                let s = lexpr::to_string(v).unwrap();
                assert_eq!(s.as_bytes(), &lexpr::to_vec(v).unwrap()[..]);
            }
        }
    }
    println!("MIRI-DONE inputs={} parses={} strs={}", used, parses, strs);
}
