//! C09 -- sexp! builds the value the parser reads from the same S-expression.
//!
//! A generated crate: every invocation of the macro is a distinct Rust program
//! fragment that has to be compiled; the program itself compares the macro's
//! value with lexpr::from_str of the equivalent text and prints mismatches.

use crate::mon::child::{self, Exit};
use crate::props::PropDef;
use crate::report::Report;
use crate::rng::{hash_str, Rng};
use crate::run::{CaseSet, Ctx};
use serde_json::{json, Value as J};
use std::fmt::Write as _;
use std::time::Duration;

pub fn def() -> PropDef {
    PropDef {
        id: "C09",
        level: "exploration",
        rule: "cases = generated sexp! invocations: random trees of depth <= 5 over the documented syntax -- i32 integers and floats with a fraction (optionally negative), strings, Rust character literals, #t #f #nil, identifier symbols, #\"...\" symbols, punctuation-only symbols (+ - * / < <= => -> ... ! $ % & : ? @ ^ ~ and multi-character joins) at first/middle/last/after-dot positions and inside vectors, keywords as #:name, :name and #:\"...\", proper lists, dotted lists whose tail is an atom, a list or a dotted list (flattening), vectors, and unquotes of every From type (also as dotted tail); plus, deterministically, 20 caller variables with names an expansion might use for its own locals (tail, head, list, items, vec, value, ...) in every unquote position of 10 compound shapes. Each invocation is compiled in a generated crate against /repo/lexpr (feature sexp-macro) and compared at run time with lexpr::from_str of the equivalent text (unquotes substituted by Value::from(expr)). non-trivial = one compiled invocation compared; distinct = hash of the invocation source",
        assumptions: &["rustc/cargo of the default toolchain compile the generated crate offline", "the harness's rendering of the 'equivalent text' is the documented correspondence (e.g. :name and #:\"name\" correspond to #:name)"],
        nofast_too: false,
        min_quick: 300,
        min_thorough: 4_000,
        sets,
        post: None,
    }
}

#[derive(Clone, Debug)]
enum T {
    Int(i32),
    Float(f64),
    /// a float literal spelled in a particular way (same text for Rust and for the S-expression)
    FloatLit(String),
    Str(String),
    Char(char),
    True,
    False,
    Nil,
    Sym(String),
    SymQ(String),
    Punct(String),
    KwOcto(String),
    KwColon(String),
    KwStr(String),
    List(Vec<T>),
    Dotted(Vec<T>, Box<T>),
    Vector(Vec<T>),
    /// index into the unquote table
    Unquote(usize, bool),
    /// index into UNQ_EXPRS: an unquoted expression of a particular syntactic shape
    UnquoteExpr(usize),
}

const IDENTS: &[&str] = &["foo", "bar", "baz", "x", "y1", "lambda", "define", "nil", "t", "quote", "list_tail", "CamelCase", "a", "b2", "set_car", "e1", "x_y_z"];
const KEBABS: &[&str] = &["kebab-symbol", "a-b", "set-car!", "list->vector", "x", "foo?", "<tag>", "a.b", "number->string", "*global*", "+", "...", "a:b", "x1+"];
const PUNCTS: &[&str] = &["+", "-", "*", "/", "<", "<=", "=", ">", ">=", "=>", "->", "...", "!", "$", "%", "&", "?", "@", "^", "~", "<=>", "!=", "**", "&&", "==", "<<", ">>", "+=", "-=", "::", ":", "?!", "$%&", "<-", "=~", "^^", "~=", "@@", "!$%&*+-./:<=>?@^~"];

/// (rust type/expression for the let, expected-value expression)
const UNQUOTES: &[(&str, &str)] = &[
    ("let u0: i8 = -7;", "Value::from(-7i8)"),
    ("let u1: i16 = -300;", "Value::from(-300i16)"),
    ("let u2: i32 = 123456;", "Value::from(123456i32)"),
    ("let u3: i64 = i64::MIN;", "Value::from(i64::MIN)"),
    ("let u4: u8 = 255;", "Value::from(255u8)"),
    ("let u5: u16 = 65535;", "Value::from(65535u16)"),
    ("let u6: u32 = 4000000000;", "Value::from(4000000000u32)"),
    ("let u7: u64 = u64::MAX;", "Value::from(u64::MAX)"),
    ("let u8_: f32 = 1.5;", "Value::from(1.5f32)"),
    ("let u9: f64 = -2.75e10;", "Value::from(-2.75e10f64)"),
    ("let u10: bool = true;", "Value::from(true)"),
    ("let u11: char = 'λ';", "Value::from('λ')"),
    ("let u12: &str = \"borrowed\";", "Value::from(\"borrowed\")"),
    ("let u13: String = String::from(\"owned\");", "Value::from(String::from(\"owned\"))"),
    ("let u14: Vec<u8> = vec![1, 2, 255];", "Value::from(vec![1u8, 2, 255])"),
    ("let u15 = (1, \"two\");", "Value::from((1, \"two\"))"),
    ("let u16_: Value = Value::list(vec![1, 2]);", "Value::list(vec![1, 2])"),
    ("let u17: lexpr::Number = lexpr::Number::from(42u8);", "Value::from(lexpr::Number::from(42u8))"),
    ("let u18: lexpr::Cons = lexpr::Cons::new(1, 2);", "Value::from(lexpr::Cons::new(1, 2))"),
    ("let u19: Vec<Value> = vec![Value::from(1), Value::symbol(\"s\")];", "Value::from(vec![Value::from(1), Value::symbol(\"s\")])"),
    ("let u20: std::borrow::Cow<'static, str> = std::borrow::Cow::Borrowed(\"cow\");", "Value::from(\"cow\")"),
    ("let u21: Box<str> = \"boxed\".into();", "Value::from(\"boxed\")"),
    ("let u22: Value = Value::Null;", "Value::Null"),
    ("let u23: Value = Value::symbol(\"sym\");", "Value::symbol(\"sym\")"),
    // caller variables whose names a macro expansion might use for its own locals (hygiene)
    ("let tail: i32 = 900;", "Value::from(900i32)"),
    ("let head: i32 = 901;", "Value::from(901i32)"),
    ("let list: i32 = 902;", "Value::from(902i32)"),
    ("let items: i32 = 903;", "Value::from(903i32)"),
    ("let elements: i32 = 904;", "Value::from(904i32)"),
    ("let vec: i32 = 905;", "Value::from(905i32)"),
    ("let value: i32 = 906;", "Value::from(906i32)"),
    ("let v: i32 = 907;", "Value::from(907i32)"),
    ("let cons: i32 = 908;", "Value::from(908i32)"),
    ("let rest: i32 = 909;", "Value::from(909i32)"),
    ("let result: i32 = 910;", "Value::from(910i32)"),
    ("let tmp: i32 = 911;", "Value::from(911i32)"),
    ("let acc: i32 = 912;", "Value::from(912i32)"),
    ("let cdr: i32 = 913;", "Value::from(913i32)"),
    ("let car: i32 = 914;", "Value::from(914i32)"),
    ("let x: i32 = 915;", "Value::from(915i32)"),
    ("let e: i32 = 916;", "Value::from(916i32)"),
    ("let t: i32 = 917;", "Value::from(917i32)"),
    ("let sexp: i32 = 918;", "Value::from(918i32)"),
    ("let lexpr: i32 = 919;", "Value::from(919i32)"),
];
/// (expression text after the comma, expected-value expression)
const UNQ_EXPRS: &[(&str, &str)] = &[
    ("(1, \"two\")", "Value::from((1, \"two\"))"),
    ("(u2 + 1)", "Value::from(123457i32)"),
    ("(u2 as i64)", "Value::from(123456i64)"),
    ("((7, 8))", "Value::from((7, 8))"),
    ("(if u10 { 1 } else { 2 })", "Value::from(1)"),
    ("(u12.len() as u32)", "Value::from(8u32)"),
    ("(vec![1u8, 2])", "Value::from(vec![1u8, 2])"),
    ("(Value::from(5))", "Value::from(5)"),
    ("(-u2)", "Value::from(-123456i32)"),
    ("(&u12[1..3])", "Value::from(\"or\")"),
    ("(u15.0)", "Value::from(1)"),
    ("(u0, u11)", "Value::from((-7i8, 'λ'))"),
    ("(u2 - 6)", "Value::from(123450i32)"),
    ("(u10 && false)", "Value::from(false)"),
];
const UNQ_NAMES: &[&str] = &["u0", "u1", "u2", "u3", "u4", "u5", "u6", "u7", "u8_", "u9", "u10", "u11", "u12", "u13", "u14", "u15", "u16_", "u17", "u18", "u19", "u20", "u21", "u22", "u23", "tail", "head", "list", "items", "elements", "vec", "value", "v", "cons", "rest", "result", "tmp", "acc", "cdr", "car", "x", "e", "t", "sexp", "lexpr"];

fn gen_atom(rng: &mut Rng) -> T {
    match rng.below(20) {
        0 | 1 => T::Int(match rng.below(5) {
            0 => 0,
            1 => i32::MAX,
            2 => -(rng.below(1000) as i32) - 1,
            _ => rng.below(100000) as i32,
        }),
        2 => {
            let m = rng.below(100000) as f64 / *rng.pick(&[8.0, 16.0, 64.0, 1024.0]);
            T::Float(if rng.chance(1, 3) { -m - 0.5 } else { m + 0.25 })
        }
        3 => {
            // written in exponent notation (Rust and S-expression syntax coincide)
            let f = *rng.pick(&[1e5, 2.5e-3, 1e21, 6.02e23, 1.5e10, 1e-7, 3e8, 4.5e-10, 1e100]);
            if rng.chance(1, 3) {
                // other spellings both languages accept: upper-case E, explicit exponent sign, no fraction
                let lit = *rng.pick::<&str>(&["1E5", "2E3", "5E-1", "1e+5", "2.5E+3", "1E21", "7E0", "1.5E3", "25E-2", "3E+8", "1e0", "12E1"]);
                return T::FloatLit(format!("{}{}", if rng.chance(1, 3) { "-" } else { "" }, lit));
            }
            T::Float(if rng.chance(1, 2) { -f } else { f })
        }
        4 | 5 => T::Str((*rng.pick::<&str>(&["", "hello", "two words", "quo\"te", "back\\slash", "tab\there", "λ unicode 中", "new\nline", "(parens)", "semi;colon", "#hash"])).to_string()),
        6 => T::Char(*rng.pick(&['a', 'Z', '0', ' ', 'λ', '中', '\n', '\t', '\\', '\'', '"', '(', ')', ';', '#', '\u{1F600}', '\0', '\x7f'])),
        7 => T::True,
        8 => T::False,
        9 => T::Nil,
        10 | 11 => T::Sym((*rng.pick::<&str>(IDENTS)).to_string()),
        12 => T::SymQ((*rng.pick::<&str>(KEBABS)).to_string()),
        13 | 14 | 15 => T::Punct((*rng.pick::<&str>(PUNCTS)).to_string()),
        16 => T::KwOcto((*rng.pick::<&str>(IDENTS)).to_string()),
        17 => T::KwColon((*rng.pick::<&str>(IDENTS)).to_string()),
        18 => T::KwStr((*rng.pick::<&str>(KEBABS)).to_string()),
        _ if rng.chance(1, 4) => T::UnquoteExpr(rng.below(UNQ_EXPRS.len())),
        _ => {
            let k = rng.below(UNQUOTES.len());
            // u0..u12 are Copy; the others must be cloned, which needs the (expr) form
            T::Unquote(k, (k > 12 && k < 24) || rng.chance(1, 3))
        }
    }
}

fn gen_tree(rng: &mut Rng, depth: u32) -> T {
    if depth >= 5 || rng.chance(2, 5) {
        return gen_atom(rng);
    }
    let n = match rng.below(5) {
        0 => 0,
        1 => 1,
        _ => rng.range(1, 5),
    };
    let items: Vec<T> = (0..n).map(|_| gen_tree(rng, depth + 1)).collect();
    match rng.below(6) {
        0 | 1 | 2 => T::List(items),
        3 => {
            if items.is_empty() {
                T::List(items)
            } else {
                let tail = match rng.below(4) {
                    0 => gen_tree(rng, depth + 1), // may be a list or dotted list: flattening
                    _ => gen_atom(rng),
                };
                T::Dotted(items, Box::new(tail))
            }
        }
        _ => T::Vector(items),
    }
}

fn lexpr_string(s: &str) -> String {
    let mut out = String::from("\"");
    for c in s.chars() {
        match c {
            '"' => out.push_str("\\\""),
            '\\' => out.push_str("\\\\"),
            '\n' => out.push_str("\\n"),
            '\t' => out.push_str("\\t"),
            c if (c as u32) < 0x20 || c == '\x7f' => out.push_str(&format!("\\x{:x};", c as u32)),
            c => out.push(c),
        }
    }
    out.push('"');
    out
}

/// Macro token rendering.
fn macro_src(t: &T, out: &mut String) {
    match t {
        T::Int(i) => write!(out, "{}", i).unwrap(),
        T::Float(f) => {
            // {:e} for the values generated in exponent notation, {:?} otherwise
            if f.abs() >= 1e5 && f.fract() == 0.0 || f.abs() < 1e-2 {
                write!(out, "{:e}", f).unwrap()
            } else {
                write!(out, "{:?}", f).unwrap()
            }
        }
        T::FloatLit(l) => out.push_str(l),
        T::Str(s) => write!(out, "{:?}", s).unwrap(),
        T::Char(c) => write!(out, "{:?}", c).unwrap(),
        T::True => out.push_str("#t"),
        T::False => out.push_str("#f"),
        T::Nil => out.push_str("#nil"),
        T::Sym(s) => out.push_str(s),
        T::SymQ(s) => write!(out, "#\"{}\"", s).unwrap(),
        T::Punct(s) => out.push_str(s),
        T::KwOcto(s) => write!(out, "#:{}", s).unwrap(),
        T::KwColon(s) => write!(out, ":{}", s).unwrap(),
        T::KwStr(s) => write!(out, "#:\"{}\"", s).unwrap(),
        T::List(xs) => {
            out.push('(');
            for (i, x) in xs.iter().enumerate() {
                if i > 0 {
                    out.push(' ');
                }
                macro_src(x, out);
            }
            out.push(')');
        }
        T::Dotted(xs, tail) => {
            out.push('(');
            for x in xs.iter() {
                macro_src(x, out);
                out.push(' ');
            }
            out.push_str(". ");
            macro_src(tail, out);
            out.push(')');
        }
        T::Vector(xs) => {
            out.push_str("#(");
            for (i, x) in xs.iter().enumerate() {
                if i > 0 {
                    out.push(' ');
                }
                macro_src(x, out);
            }
            out.push(')');
        }
        T::Unquote(k, paren) => {
            if *paren {
                write!(out, ",({}.clone())", UNQ_NAMES[*k]).unwrap()
            } else {
                write!(out, ",{}", UNQ_NAMES[*k]).unwrap()
            }
        }
        T::UnquoteExpr(j) => write!(out, ",{}", UNQ_EXPRS[*j].0).unwrap(),
    }
}

/// Equivalent S-expression text; unquotes become placeholder symbols.
fn text_src(t: &T, out: &mut String) {
    match t {
        T::Int(i) => write!(out, "{}", i).unwrap(),
        T::Float(f) => {
            // {:e} for the values generated in exponent notation, {:?} otherwise
            if f.abs() >= 1e5 && f.fract() == 0.0 || f.abs() < 1e-2 {
                write!(out, "{:e}", f).unwrap()
            } else {
                write!(out, "{:?}", f).unwrap()
            }
        }
        T::FloatLit(l) => out.push_str(l),
        T::Str(s) => out.push_str(&lexpr_string(s)),
        T::Char(c) => write!(out, "#\\x{:x}", *c as u32).unwrap(),
        T::True => out.push_str("#t"),
        T::False => out.push_str("#f"),
        T::Nil => out.push_str("#nil"),
        T::Sym(s) | T::SymQ(s) | T::Punct(s) => out.push_str(s),
        T::KwOcto(s) | T::KwColon(s) | T::KwStr(s) => write!(out, "#:{}", s).unwrap(),
        T::List(xs) => {
            out.push('(');
            for (i, x) in xs.iter().enumerate() {
                if i > 0 {
                    out.push(' ');
                }
                text_src(x, out);
            }
            out.push(')');
        }
        T::Dotted(xs, tail) => {
            out.push('(');
            for x in xs.iter() {
                text_src(x, out);
                out.push(' ');
            }
            out.push_str(". ");
            text_src(tail, out);
            out.push(')');
        }
        T::Vector(xs) => {
            out.push_str("#(");
            for (i, x) in xs.iter().enumerate() {
                if i > 0 {
                    out.push(' ');
                }
                text_src(x, out);
            }
            out.push(')');
        }
        T::Unquote(k, _) => write!(out, "UNQUOTE-PLACEHOLDER-{}-", k).unwrap(),
        T::UnquoteExpr(j) => write!(out, "UNQUOTE-PLACEHOLDER-{}-", UNQUOTES.len() + j).unwrap(),
    }
}

/// Classification used for signatures: which documented-subset hazard does the tree contain?
fn hazards(t: &T, acc: &mut Vec<&'static str>) {
    let seq = |xs: &Vec<T>, in_list: bool, acc: &mut Vec<&'static str>| {
        for (i, x) in xs.iter().enumerate() {
            if let T::Punct(p) = x {
                if p == "-" && matches!(xs.get(i + 1), Some(T::Int(_)) | Some(T::Float(_)) | Some(T::FloatLit(_))) {
                    acc.push("minus-symbol-before-number");
                }
                if p == "-" && matches!(xs.get(i + 1), Some(T::Str(_)) | Some(T::Char(_))) {
                    acc.push("minus-symbol-before-literal");
                }
                if p == ":" && matches!(xs.get(i + 1), Some(T::Sym(_)) | Some(T::Str(_))) {
                    acc.push("colon-symbol-before-name");
                }
                if p == ":" && matches!(xs.get(i + 1), Some(T::Int(_)) | Some(T::Float(_)) | Some(T::FloatLit(_)) | Some(T::Char(_))) {
                    acc.push("colon-symbol-before-literal");
                }
                if p.starts_with('.') && in_list {
                    acc.push("dots-symbol-in-list");
                }
            }
        }
    };
    match t {
        T::List(xs) => {
            seq(xs, true, acc);
            xs.iter().for_each(|x| hazards(x, acc));
        }
        T::Dotted(xs, tail) => {
            let mut all = xs.clone();
            all.push((**tail).clone());
            seq(&all, true, acc);
            xs.iter().for_each(|x| hazards(x, acc));
            hazards(tail, acc);
        }
        T::Vector(xs) => {
            seq(xs, false, acc);
            xs.iter().for_each(|x| hazards(x, acc));
        }
        T::SymQ(s) | T::KwStr(s) => {
            if s.contains(' ') {
                acc.push("quoted-name-with-space");
            }
        }
        _ => {}
    }
}

fn atom_kinds(t: &T, acc: &mut Vec<&'static str>) {
    let k = match t {
        T::Int(_) => "int",
        T::Float(_) | T::FloatLit(_) => "float",
        T::Str(_) => "string",
        T::Char(_) => "char",
        T::True | T::False => "bool",
        T::Nil => "nil",
        T::Sym(_) => "ident-symbol",
        T::SymQ(_) => "quoted-symbol",
        T::Punct(_) => "punct-symbol",
        T::KwOcto(_) => "kw-octothorpe",
        T::KwColon(_) => "kw-colon",
        T::KwStr(_) => "kw-string",
        T::List(xs) => {
            xs.iter().for_each(|x| atom_kinds(x, acc));
            "list"
        }
        T::Dotted(xs, t) => {
            xs.iter().for_each(|x| atom_kinds(x, acc));
            atom_kinds(t, acc);
            match **t {
                T::List(_) | T::Dotted(_, _) => "dotted-with-list-tail",
                T::Unquote(_, _) | T::UnquoteExpr(_) => "dotted-with-unquote-tail",
                _ => "dotted",
            }
        }
        T::Vector(xs) => {
            xs.iter().for_each(|x| atom_kinds(x, acc));
            "vector"
        }
        T::Unquote(_, _) | T::UnquoteExpr(_) => "unquote",
    };
    acc.push(k);
}

struct Inv {
    macro_src: String,
    text: String,
    hazards: Vec<&'static str>,
    kinds: Vec<&'static str>,
}

fn write_crate(dir: &str, invs: &[Inv], skip: &std::collections::HashSet<usize>) -> (std::collections::HashMap<usize, usize>, String) {
    let _ = std::fs::create_dir_all(format!("{}/src", dir));
    std::fs::write(
        format!("{}/Cargo.toml", dir),
        "[package]\nname = \"c09gen\"\nversion = \"0.0.0\"\nedition = \"2021\"\npublish = false\n\n[workspace]\n\n[dependencies]\nlexpr = { path = \"/repo/lexpr\", features = [\"sexp-macro\"] }\n\n[profile.dev]\ndebug = 0\nopt-level = 0\n",
    )
    .unwrap();
    let _ = std::fs::copy("/repo/Cargo.lock", format!("{}/Cargo.lock", dir));
    let mut src = String::new();
    src.push_str("// generated by vcheck C09 -- do not edit\n#![allow(unused_variables, clippy::all)]\nuse lexpr::{sexp, Value};\n\n");
    src.push_str("fn subst(v: &Value, u: &[Value]) -> Value {\n    match v {\n        Value::Symbol(s) if s.starts_with(\"UNQUOTE-PLACEHOLDER-\") => {\n            let k: usize = s.trim_start_matches(\"UNQUOTE-PLACEHOLDER-\").trim_end_matches('-').parse().unwrap();\n            u[k].clone()\n        }\n        Value::Cons(c) => {\n            let (xs, t) = c.to_vec();\n            Value::append(xs.iter().map(|x| subst(x, u)).collect::<Vec<_>>(), subst(&t, u))\n        }\n        Value::Vector(xs) => Value::vector(xs.iter().map(|x| subst(x, u)).collect::<Vec<_>>()),\n        other => other.clone(),\n    }\n}\n\n");
    src.push_str("fn check(idx: usize, got: Value, text: &str, u: &[Value]) -> bool {\n    match lexpr::from_str(text) {\n        Ok(parsed) => {\n            let want = subst(&parsed, u);\n            if got == want { true } else { println!(\"MISMATCH\\t{}\\t{:?}\\t{:?}\", idx, got, want); false }\n        }\n        Err(e) => { println!(\"TEXTERR\\t{}\\t{}\", idx, e); false }\n    }\n}\n\n");
    let mut line_map = std::collections::HashMap::new();
    let per_fn = 40;
    let mut fn_names = Vec::new();
    let live: Vec<usize> = (0..invs.len()).filter(|i| !skip.contains(i)).collect();
    for (fi, chunk) in live.chunks(per_fn).enumerate() {
        let name = format!("group_{}", fi);
        fn_names.push(name.clone());
        writeln!(src, "fn {}(u: &[Value]) -> usize {{", name).unwrap();
        for (decl, _) in UNQUOTES {
            writeln!(src, "    {}", decl).unwrap();
        }
        src.push_str("    let mut ok = 0usize;\n");
        for &i in chunk {
            let line_no = src.matches('\n').count() + 1;
            line_map.insert(line_no, i);
            writeln!(src, "    if check({}, sexp!({}), {:?}, u) {{ ok += 1; }}", i, invs[i].macro_src, invs[i].text).unwrap();
        }
        src.push_str("    ok\n}\n\n");
    }
    src.push_str("fn main() {\n    let u: Vec<Value> = vec![\n");
    for (_, e) in UNQUOTES {
        writeln!(src, "        {},", e).unwrap();
    }
    for (_, e) in UNQ_EXPRS {
        writeln!(src, "        {},", e).unwrap();
    }
    src.push_str("    ];\n    let mut ok = 0usize;\n");
    for n in fn_names {
        writeln!(src, "    ok += {}(&u);", n).unwrap();
    }
    src.push_str("    println!(\"COMPARED-OK\\t{}\", ok);\n}\n");
    std::fs::write(format!("{}/src/main.rs", dir), &src).unwrap();
    (line_map, src)
}

fn run_all(rep: &mut Report, ctx_seed: u64, n: usize, thorough: bool) {
    let root = std::env::var("VH_TARGET").unwrap_or_else(|_| "/verif/target".into());
    let dir = format!("{}/c09-gen-{}-{}", root, ctx_seed, if thorough { "thorough" } else { "quick" });
    let target = format!("{}/c09-target", root);
    let _ = std::fs::remove_dir_all(&dir);
    // generate
    let mut invs = Vec::new();
    let mut rng = Rng::new(ctx_seed, "c09-gen", 0, 0);
    while invs.len() < n {
        let t = gen_tree(&mut rng, 0);
        let (mut m, mut x) = (String::new(), String::new());
        macro_src(&t, &mut m);
        text_src(&t, &mut x);
        let mut hz = Vec::new();
        hazards(&t, &mut hz);
        hz.sort();
        hz.dedup();
        if hz.len() > 1 {
            // keep signatures narrow: one hazard kind per invocation
            continue;
        }
        let mut kinds = Vec::new();
        atom_kinds(&t, &mut kinds);
        invs.push(Inv { macro_src: m, text: x, hazards: hz, kinds });
    }
    // directed: every hygiene-prone caller variable in every unquote position of every
    // compound shape, next to a second unquote (the shapes for which an expansion
    // might introduce locals)
    for k in 24..UNQUOTES.len() {
        let n = |paren: bool| T::Unquote(k, paren);
        let other = |j: usize| T::Unquote(j, j > 12);
        let sym = || T::Sym("b".to_string());
        let shapes: Vec<T> = vec![
            T::Dotted(vec![n(true), sym()], Box::new(other(2))),
            T::Dotted(vec![sym(), n(false)], Box::new(other(4))),
            T::Dotted(vec![sym()], Box::new(n(false))),
            T::Dotted(vec![other(13), n(true)], Box::new(n(false))),
            T::Dotted(vec![T::List(vec![n(false)])], Box::new(other(0))),
            T::List(vec![n(false), other(2)]),
            T::List(vec![other(12), n(true), sym()]),
            T::Vector(vec![n(false), other(3)]),
            T::Vector(vec![T::Dotted(vec![n(false)], Box::new(other(1)))]),
            T::List(vec![T::Vector(vec![other(2)]), n(false)]),
        ];
        for t in shapes {
            let (mut m, mut x) = (String::new(), String::new());
            macro_src(&t, &mut m);
            text_src(&t, &mut x);
            let mut kinds = Vec::new();
            atom_kinds(&t, &mut kinds);
            invs.push(Inv { macro_src: m, text: x, hazards: Vec::new(), kinds });
        }
    }
    // directed: every punctuation symbol between / before / after identifiers and numbers
    // (tokens that Rust's lexer may have joined or split differently from an S-expression reader),
    // and every unquote expression shape in element, tail and vector position
    {
        let mut directed: Vec<T> = Vec::new();
        let (a, b) = (|| T::Sym("a".to_string()), || T::Sym("b2".to_string()));
        for p in PUNCTS {
            let pt = || T::Punct(p.to_string());
            directed.push(T::List(vec![a(), pt(), b()]));
            directed.push(T::List(vec![pt(), a()]));
            directed.push(T::List(vec![a(), pt()]));
            directed.push(T::Vector(vec![a(), pt(), b()]));
            directed.push(T::List(vec![a(), pt(), T::Int(1)]));
            directed.push(T::List(vec![T::Int(1), pt(), a()]));
            directed.push(T::List(vec![T::Sym("list".to_string()), pt(), T::Sym("vector".to_string())]));
        }
        // round 7: every pair of atom kinds adjacent to one another and separated by a punctuation
        // symbol (a keyword, quoted symbol or literal followed by `-` and an identifier must stay
        // three elements: token streams carry no whitespace, so joining is never justified)
        {
            let kinds: Vec<fn() -> T> = vec![
                || T::KwOcto("start".to_string()),
                || T::KwColon("from".to_string()),
                || T::KwStr("k w".replace(' ', "-")),
                || T::SymQ("q-s".to_string()),
                || T::Sym("offset".to_string()),
                || T::Int(7),
                || T::FloatLit("2.5".to_string()),
                || T::Str("s".to_string()),
                || T::Char('c'),
                || T::True,
                || T::Nil,
            ];
            let ps = ["+", "-", "*", "/", "<", "<=", "->", "...", "!", "?", "=>", "-=", "@", "~"];
            for (i, ka) in kinds.iter().enumerate() {
                for (j, kb) in kinds.iter().enumerate() {
                    directed.push(T::List(vec![ka(), kb()]));
                    directed.push(T::Vector(vec![ka(), kb(), ka()]));
                    for (n, p) in ps.iter().enumerate() {
                        let pt = T::Punct(p.to_string());
                        directed.push(T::List(vec![ka(), pt.clone(), kb()]));
                        if (i + j + n) % 3 == 0 {
                            directed.push(T::Vector(vec![ka(), pt.clone(), kb()]));
                            directed.push(T::Dotted(vec![ka(), pt.clone()], Box::new(kb())));
                            directed.push(T::List(vec![T::List(vec![ka(), pt.clone(), kb()]), pt.clone(), kb()]));
                        }
                    }
                }
            }
        }
        // round 7: every kind of tail behind one, two and three levels of dotted-tail flattening
        {
            let tails: Vec<fn() -> T> = vec![
                || T::Vector(vec![T::Int(1), T::Int(2)]),
                || T::Vector(vec![]),
                || T::List(vec![]),
                || T::List(vec![T::Sym("c".to_string()), T::Vector(vec![T::Int(3)])]),
                || T::Str("s".to_string()),
                || T::Int(7),
                || T::KwOcto("k".to_string()),
                || T::Nil,
                || T::Sym("z".to_string()),
                || T::Unquote(14, true),
                || T::Unquote(16, true),
            ];
            for tl in &tails {
                let d1 = T::Dotted(vec![b()], Box::new(tl()));
                let d2 = T::Dotted(vec![a()], Box::new(d1.clone()));
                let d3 = T::Dotted(vec![T::Int(0), a()], Box::new(d2.clone()));
                directed.push(d1.clone());
                directed.push(d2.clone());
                directed.push(d3.clone());
                directed.push(T::Vector(vec![d2.clone(), tl()]));
                directed.push(T::List(vec![a(), d2.clone()]));
                directed.push(T::Dotted(vec![a()], Box::new(T::List(vec![b(), tl()]))));
            }
        }
        for j in 0..UNQ_EXPRS.len() {
            directed.push(T::UnquoteExpr(j));
            directed.push(T::List(vec![a(), T::UnquoteExpr(j), b()]));
            directed.push(T::Dotted(vec![a()], Box::new(T::UnquoteExpr(j))));
            directed.push(T::Vector(vec![T::UnquoteExpr(j), a()]));
            directed.push(T::List(vec![T::List(vec![T::Sym("answer".to_string())]), T::Dotted(vec![T::Sym("k".to_string())], Box::new(T::UnquoteExpr(j)))]));
        }
        for t in directed {
            let (mut m, mut x) = (String::new(), String::new());
            macro_src(&t, &mut m);
            text_src(&t, &mut x);
            let mut hz = Vec::new();
            hazards(&t, &mut hz);
            hz.sort();
            hz.dedup();
            if hz.len() > 1 {
                continue;
            }
            let mut kinds = Vec::new();
            atom_kinds(&t, &mut kinds);
            invs.push(Inv { macro_src: m, text: x, hazards: hz, kinds });
        }
    }
    let mut skip: std::collections::HashSet<usize> = Default::default();
    let mut built = false;
    for round in 0..6 {
        let (line_map, _src) = write_crate(&dir, &invs, &skip);
        let args: Vec<String> = vec!["build".into(), "--offline".into(), "--quiet".into(), "--target-dir".into(), target.clone()];
        let r = child::run_in("cargo", &args, Some(&dir), &[("CARGO_NET_OFFLINE", "true".to_string()), ("RUSTFLAGS", String::new()), ("CARGO_TERM_COLOR", "never".to_string())], Duration::from_secs(3600));
        match r.exit {
            Exit::Code(0) => {
                built = true;
                break;
            }
            Exit::Code(_) => {
                // attribute compile errors to invocations by line number
                // short format lines: src/main.rs:LINE:COL: error...
                let out = std::process::Command::new("cargo").args(["build", "--offline", "--target-dir", &target, "--message-format", "short"]).current_dir(&dir).env("CARGO_NET_OFFLINE", "true").env("RUSTFLAGS", "").env("CARGO_TERM_COLOR", "never").output();
                let text = out.map(|o| String::from_utf8_lossy(&o.stderr).to_string()).unwrap_or_default();
                let mut newly = 0;
                for l in text.lines() {
                    if let Some(rest) = l.strip_prefix("src/main.rs:") {
                        if !l.contains("error") {
                            continue;
                        }
                        if let Some(ln) = rest.split(':').next().and_then(|x| x.parse::<usize>().ok()) {
                            if let Some(&idx) = line_map.get(&ln) {
                                if skip.insert(idx) {
                                    newly += 1;
                                    let msg: String = l.chars().take(300).collect();
                                    let inv = &invs[idx];
                                    rep.eval();
                                    let class = if inv.hazards.is_empty() { "documented-subset".to_string() } else { inv.hazards.join("+") };
                                    rep.violation(
                                        "compile",
                                        format!("C09:does-not-compile:{}", class),
                                        format!("sexp!({}) does not compile: {}", inv.macro_src, msg),
                                        json!({"macro": inv.macro_src, "text": inv.text}),
                                    );
                                }
                            }
                        }
                    }
                }
                if newly == 0 {
                    rep.inconclusive(format!("generated crate does not build and the errors cannot be attributed (round {}): {}", round, text.lines().filter(|l| l.contains("error")).take(3).collect::<Vec<_>>().join(" | ")));
                    return;
                }
            }
            other => {
                rep.inconclusive(format!("cargo build of the generated crate: {:?} {}", other, r.stderr_tail));
                return;
            }
        }
    }
    if !built {
        rep.inconclusive("generated crate still does not build after removing failing invocations".into());
        return;
    }
    // run
    let bin = format!("{}/debug/c09gen", target);
    let r = child::run(&bin, &[], Duration::from_secs(600));
    if !matches!(r.exit, Exit::Code(0)) {
        rep.inconclusive(format!("generated program ended with {:?}: {}", r.exit, r.stderr_tail));
        return;
    }
    let mut bad: std::collections::HashMap<usize, (String, String, String)> = Default::default();
    for l in r.stdout.lines() {
        let parts: Vec<&str> = l.split('\t').collect();
        if parts.len() >= 4 && parts[0] == "MISMATCH" {
            if let Ok(i) = parts[1].parse::<usize>() {
                bad.insert(i, ("mismatch".into(), parts[2].to_string(), parts[3].to_string()));
            }
        } else if parts.len() >= 3 && parts[0] == "TEXTERR" {
            if let Ok(i) = parts[1].parse::<usize>() {
                bad.insert(i, ("texterr".into(), parts[2].to_string(), String::new()));
            }
        }
    }
    for (i, inv) in invs.iter().enumerate() {
        if skip.contains(&i) {
            continue;
        }
        rep.eval();
        rep.distinct(hash_str(&inv.macro_src));
        for k in inv.kinds.iter() {
            rep.count(&format!("form:{}", k));
        }
        match bad.get(&i) {
            None => {
                if rep.want_sample() && inv.macro_src.len() > 12 {
                    rep.sample(json!({"macro": format!("sexp!({})", inv.macro_src), "text": inv.text}));
                }
            }
            Some((kind, got, want)) => {
                if kind == "texterr" {
                    rep.inconclusive(format!("harness rendered text the parser rejects: {:?}: {}", inv.text, got));
                    continue;
                }
                let class = if inv.hazards.is_empty() { "documented-subset".to_string() } else { inv.hazards.join("+") };
                rep.violation(
                    "value",
                    format!("C09:value-differs:{}", class),
                    format!("sexp!({}) = {} but parsing {:?} gives {}", inv.macro_src, got.chars().take(300).collect::<String>(), inv.text, want.chars().take(300).collect::<String>()),
                    json!({"macro": inv.macro_src, "text": inv.text}),
                );
            }
        }
    }
    rep.count_n("invocations:compiled-and-compared", (invs.len() - skip.len()) as u64);
    let _ = std::fs::remove_dir_all(&dir);
    let _: Option<J> = None;
}

pub fn sets(ctx: &Ctx) -> Vec<CaseSet> {
    let seed = ctx.seed;
    let thorough = ctx.thorough;
    let n = ctx.size(500, 6_000) as usize;
    vec![CaseSet::serial("generated-crate", 1, Box::new(move |rep, _rng, _| run_all(rep, seed, n, thorough)))]
}
