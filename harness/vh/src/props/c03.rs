//! C03 -- parsing is total: any bytes, any options -> value or error, bounded recursion.
//!
//! Monitors: catch_unwind (incl. arithmetic-overflow panics of the monitoring
//! build), the step counter ("fuel") hook for termination, the recursion-depth
//! gauge, the nesting-budget accessor ("restored after every call"), and a
//! child-process crash monitor for 10^6-deep input.

use crate::gen::text;
use crate::gen::{self, GenCfg, Tables};
use crate::mon::child::{self, Exit};
use crate::mon::io::{ChunkReader, Chunking};
use crate::mon::panics;
use crate::opts::{Q, N_Q};
use crate::props::common::*;
use crate::props::PropDef;
use crate::report::{hex, show, Report};
use crate::rng::{hash2, hash_bytes, Rng};
use crate::run::{CaseSet, Ctx};
use lexpr::parse::{Options, Read};
use lexpr::Parser;
use serde_json::json;
use std::sync::Arc;
use std::time::Duration;

pub const DEPTH_LIMIT: u32 = 128;
pub const DEPTH_ALLOWANCE: u32 = 2;

pub fn def() -> PropDef {
    PropDef {
        id: "C03",
        level: "exploration",
        rule: "cases = (byte string, parser option set, source kind, API call or call history). byte strings: EVERY string of length <= 2 over all 256 bytes and every string of length 3 over a 52-byte significant alphabet (exhaustive for those sub-spaces), against {default, elisp, all-on} + sampled option sets (thorough: all 1536 for length 3); token soup, mutated printer output and UTF-8 corruption up to 4 KiB against random option sets; pathological nests (each opener kind and period-2/3 mixtures at depths 100..5000 in-process with the depth gauge, 10^6 in child processes on a 2 MiB stack); 16 un-nested units (comment lines, blank lines, small datums) repeated 250 000 (quick) / 10^6 (thorough) times at top level and inside one list, in child processes on a 2 MiB stack; long digit/exponent strings, exponents whose sum with the implied exponent lands within 3 of the i32 limits; call histories that keep calling one parser after errors (up to 300 calls). non-trivial = one parse call observed by the panic/fuel/depth/budget monitors; distinct = hash of (input, options, source, api)",
        assumptions: &[
            "the hooks tick at least once per loop iteration of every input-scanning loop (placed in all Read::next/peek impls and the three slice scanners)",
            "a child killed by SIGSEGV, or SIGABRT with 'has overflowed its stack', is a stack overflow",
        ],
        nofast_too: false,
        min_quick: 1_000_000,
        min_thorough: 50_000_000,
        sets,
        post: Some(post),
    }
}

fn post(_ctx: &Ctx, rep: &mut Report) {
    if !crate::hooks::ENABLED {
        rep.inconclusive("built without --cfg lexpr_verif: fuel/depth/budget hooks are absent".into());
    }
    if rep.maxima.get("max_depth_gauge").copied().unwrap_or(0) < 100 {
        rep.inconclusive("depth gauge never reached 100: deep inputs were not exercised".into());
    }
    if rep.counters.get("deep:accepted-100-levels").copied().unwrap_or(0) == 0 {
        rep.inconclusive("no 100-level nest was observed".into());
    }
    if rep.counters.get("child:ran").copied().unwrap_or(0) == 0 {
        rep.inconclusive("no child-process crash monitor ran".into());
    }
}

pub const ALPHA: &[u8] = b"()[]#'`,@.\"\\;|:?+-019aenilftxuv8bod% \n\t\x0C\xCE\xBB\xFF\x00N{}^E";

#[derive(Clone, Copy, PartialEq, Debug)]
enum Src {
    Slice,
    Str,
    Reader,
}

fn fuel_limit(len: usize) -> u64 {
    64 * (len as u64 + 2) + 4096
}

struct Mon<'a> {
    rep: &'a mut Report,
    input: &'a [u8],
    q: &'a Q,
    gen_tag: &'a str,
    failed: bool,
}

impl<'a> Mon<'a> {
    fn viol(&mut self, what: &str, src: Src, api: &str, detail: String) {
        if self.failed {
            return;
        }
        self.failed = true;
        let shown = show(&self.input[..self.input.len().min(120)]);
        self.rep.violation(
            what,
            format!("C03:{}:{}", what, api),
            format!("{} ({:?}, {}) on {:?} [{} bytes] with {}: {}", api, src, self.gen_tag, shown, self.input.len(), self.q.describe(), detail),
            json!({"input_hex": if self.input.len() <= 4096 { hex(self.input) } else { format!("<{} bytes, generator {}>", self.input.len(), self.gen_tag) }, "options_index": self.q.index(), "source": format!("{:?}", src), "api": api}),
        );
    }

    /// Observe one call: panics, fuel, and the depth gauge.
    fn call<T>(&mut self, src: Src, api: &str, f: impl FnOnce() -> T) -> Option<T> {
        self.rep.eval();
        crate::hooks::set_fuel(fuel_limit(self.input.len()));
        crate::hooks::reset_depth();
        let r = panics::guarded(f);
        let used = crate::hooks::fuel_used();
        crate::hooks::set_fuel(u64::MAX);
        self.rep.max("max_steps_per_call", used);
        self.rep.max("max_steps_per_input_byte_x100", used * 100 / (self.input.len() as u64 + 1));
        let d = crate::hooks::depth_max();
        self.rep.max("max_depth_gauge", d as u64);
        if d > DEPTH_LIMIT + DEPTH_ALLOWANCE {
            self.viol("unbounded-recursion", src, api, format!("recursion depth gauge reached {} (documented limit {})", d, DEPTH_LIMIT));
        }
        if crate::hooks::depth_current() != 0 && r.is_ok() {
            self.viol("depth-gauge-not-unwound", src, api, format!("depth gauge is {} after the call returned", crate::hooks::depth_current()));
        }
        match r {
            Ok(v) => Some(v),
            Err(p) => {
                if p.message.starts_with("lexpr_verif:fuel") {
                    self.viol("non-termination", src, api, format!("more than {} scanning steps for {} input bytes", fuel_limit(self.input.len()), self.input.len()));
                } else if p.in_library() {
                    self.viol(&format!("panic:{}", p.sig()), src, api, format!("panicked: {}", p.short()));
                } else {
                    self.rep.inconclusive(format!("harness panic: {}", p.short()));
                }
                None
            }
        }
    }

    fn history<'de, R: Read<'de>>(&mut self, src: Src, p: &mut Parser<R>, max_calls: usize, rng: &mut Rng) {
        let mut errors = 0usize;
        let mut calls = 0usize;
        for i in 0..max_calls {
            calls += 1;
            let which = if max_calls <= 8 { i % 3 } else { rng.below(4) };
            let api = ["next_value", "next_datum", "expect_end", "value_iter().next"][which];
            // outcome: 0 = item, 1 = end of input, 2 = error
            let r: Option<u8> = match which {
                0 => self.call(src, "history:next_value", || match p.next_value() {
                    Ok(Some(_)) => 0,
                    Ok(None) => 1,
                    Err(_) => 2,
                }),
                1 => self.call(src, "history:next_datum", || match p.next_datum() {
                    Ok(Some(_)) => 0,
                    Ok(None) => 1,
                    Err(_) => 2,
                }),
                2 => self.call(src, "history:expect_end", || match p.expect_end() {
                    Ok(()) => 1,
                    Err(_) => 2,
                }),
                _ => self.call(src, "history:value_iter", || match p.value_iter().next() {
                    Some(Ok(_)) => 0,
                    None => 1,
                    Some(Err(_)) => 2,
                }),
            };
            let budget = crate::hooks::budget(p);
            if budget != 128 {
                self.viol("budget-not-restored", src, "history", format!("nesting budget is {} instead of 128 after call #{} ({}) returned (errors so far: {})", budget, i + 1, api, errors + 1));
            }
            match r {
                None => break,
                Some(2) => errors += 1,
                Some(1) => {
                    if which != 2 {
                        break;
                    }
                }
                _ => {}
            }
            if self.failed {
                break;
            }
        }
        self.rep.max("max_calls_on_one_parser", calls as u64);
        self.rep.max("max_errors_survived_on_one_parser", errors as u64);
    }
}

/// All APIs x sources on one input.
pub fn total_check(rep: &mut Report, input: &[u8], q: &Q, gen_tag: &str, rng: &mut Rng, history_calls: usize) {
    let o: Options = q.to_lexpr();
    let base = hash2(hash_bytes(input), q.index() as u64);
    let as_str = std::str::from_utf8(input).ok();
    let mut m = Mon { rep, input, q, gen_tag, failed: false };
    for src in [Src::Slice, Src::Str, Src::Reader] {
        if src == Src::Str && as_str.is_none() {
            continue;
        }
        m.rep.distinct(hash2(base, src as u64));
        match src {
            Src::Slice => {
                m.call(src, "from_slice_custom", || lexpr::from_slice_custom(input, o).is_ok());
                m.call(src, "datum::from_slice_custom", || lexpr::datum::from_slice_custom(input, o).is_ok());
                let mut p = Parser::from_slice_custom(input, o);
                m.history(src, &mut p, history_calls, rng);
            }
            Src::Str => {
                let s = as_str.unwrap();
                m.call(src, "from_str_custom", || lexpr::from_str_custom(s, o).is_ok());
                m.call(src, "datum::from_str_custom", || lexpr::datum::from_str_custom(s, o).is_ok());
                let mut p = Parser::from_str_custom(s, o);
                m.history(src, &mut p, history_calls, rng);
            }
            Src::Reader => {
                m.call(src, "from_reader_custom", || lexpr::from_reader_custom(input, o).is_ok());
                m.call(src, "datum::from_reader_custom", || lexpr::datum::from_reader_custom(ChunkReader::new(input, Chunking::Random, true, Rng::new(1, "c03", 0, 0)), o).is_ok());
                let mut p = Parser::from_reader_custom(input, o);
                m.history(src, &mut p, history_calls, rng);
            }
        }
        if m.failed {
            return;
        }
    }
}

// ----------------------------------------------------------------- deep nests

pub const OPENERS: &[(&str, &str, &str)] = &[
    // (name, unit repeated n times, matching closer unit)
    ("paren", "(", ")"),
    ("bracket", "[", "]"),
    ("vector", "#(", ")"),
    ("quote", "'", ""),
    ("quasiquote", "`", ""),
    ("unquote", ",", ""),
    ("unquote-splicing", ",@", ""),
    ("dotted-tail", "(a . ", ")"),
    ("mix:paren-quote", "('", ")"),
    ("mix:quote-paren", "'(", ")"),
    ("mix:paren-vector", "(#(", "))"),
    ("mix:bracket-paren", "[(", ")]"),
    ("mix:dotted-quote", "(a . '", ")"),
    ("mix:vector-bracket-quote", "#([`", "])"),
];

/// Number of nesting constructs in one repetition of the opener unit.
fn levels_per_unit(name: &str) -> usize {
    match name {
        "mix:paren-quote" | "mix:quote-paren" | "mix:paren-vector" | "mix:bracket-paren" | "mix:dotted-quote" => 2,
        "mix:vector-bracket-quote" => 3,
        _ => 1,
    }
}

fn nest(kind: usize, units: usize, closed: bool) -> Vec<u8> {
    let (_, open, close) = OPENERS[kind];
    let mut s = String::with_capacity(units * (open.len() + close.len()) + 4);
    for _ in 0..units {
        s.push_str(open);
    }
    if closed {
        s.push('a');
        // closers in reverse order of the unit's openers
        let rc: String = close.chars().collect();
        for _ in 0..units {
            s.push_str(&rc);
        }
    }
    s.into_bytes()
}

fn with_big_stack<T: Send + 'static>(f: impl FnOnce() -> T + Send + 'static) -> Option<T> {
    std::thread::Builder::new().stack_size(1 << 30).spawn(f).ok()?.join().ok()
}

fn deep_case(rep: &mut Report, kind: usize, case: u64) {
    let (name, _, _) = OPENERS[kind];
    let lpu = levels_per_unit(name);
    let q_all = [Q::default_(), Q::elisp(), Q::all_on()];
    // (levels, closed)
    let plans: &[(usize, bool)] = &[(100, true), (60, true), (126, false), (128, false), (129, true), (130, true), (200, true), (200, false), (1000, true), (5000, false)];
    let (levels, closed) = plans[(case as usize) % plans.len()];
    let units = levels / lpu;
    let input = nest(kind, units, closed);
    for q in q_all {
        // brackets are lists only when the option says so; both are nests
        let input2 = input.clone();
        let res = with_big_stack(move || {
            let mut r = Report::new();
            let mut rng = Rng::new(7, "c03-deep", kind as u64, units as u64);
            total_check(&mut r, &input2, &q, "deep-nest", &mut rng, 6);
            // acceptance / rejection facts for this input
            let ok = lexpr::from_slice_custom(&input2, q.to_lexpr()).is_ok();
            let okd = lexpr::datum::from_slice_custom(&input2, q.to_lexpr()).is_ok();
            (r, ok, okd)
        });
        match res {
            None => rep.inconclusive(format!("deep-case thread for {} x{} died", name, units)),
            Some((r, ok, okd)) => {
                rep.merge(r);
                rep.eval();
                rep.count(&format!("deep:{}:levels={}", name, units * lpu));
                if closed && units * lpu <= 100 {
                    if ok && okd {
                        rep.count("deep:accepted-100-levels");
                    } else {
                        rep.violation(
                            "shallow-rejected",
                            format!("C03:shallow-rejected:{}", name),
                            format!("{} levels of {} (well-formed, closed) rejected under {}: value api ok={}, datum api ok={}", units * lpu, name, q.describe(), ok, okd),
                            json!({"opener": name, "units": units, "options_index": q.index()}),
                        );
                    }
                }
                if units * lpu >= 200 {
                    if ok || okd {
                        rep.violation(
                            "overdeep-accepted",
                            format!("C03:overdeep-accepted:{}", name),
                            format!("{} levels of {} accepted (value api ok={}, datum api ok={}) although the documented limit is {}", units * lpu, name, ok, okd, DEPTH_LIMIT),
                            json!({"opener": name, "units": units, "options_index": q.index()}),
                        );
                    } else {
                        rep.count("deep:overdeep-rejected");
                    }
                }
            }
        }
    }
}

/// `vcheck child c03-deep <kind> <units> <api> <src> <qindex>`
pub fn child(args: &[String]) -> i32 {
    let kind: usize = args[0].parse().unwrap();
    let units: usize = args[1].parse().unwrap();
    let api = args[2].clone();
    let src = args[3].clone();
    let q = Q::from_index(args[4].parse().unwrap());
    let input = nest(kind, units, false);
    let h = std::thread::Builder::new()
        .stack_size(2 * 1024 * 1024)
        .spawn(move || {
            let o = q.to_lexpr();
            let ok = match (api.as_str(), src.as_str()) {
                ("value", "slice") => lexpr::from_slice_custom(&input, o).map(|_| ()).map_err(|e| e.to_string()),
                ("value", "str") => lexpr::from_str_custom(std::str::from_utf8(&input).unwrap(), o).map(|_| ()).map_err(|e| e.to_string()),
                ("value", "reader") => lexpr::from_reader_custom(&input[..], o).map(|_| ()).map_err(|e| e.to_string()),
                ("datum", "reader") => lexpr::datum::from_reader_custom(&input[..], o).map(|_| ()).map_err(|e| e.to_string()),
                ("datum", _) => {
                    let mut p = Parser::from_reader_custom(&input[..], o);
                    p.next_datum().map(|_| ()).map_err(|e| e.to_string())
                }
                _ => Err("bad args".into()),
            };
            match ok {
                Ok(()) => println!("RESULT OK"),
                Err(e) => println!("RESULT ERR {}", e),
            }
        })
        .unwrap();
    match h.join() {
        Ok(()) => 0,
        Err(_) => 3,
    }
}

/// Units repeated 10^6 times with NO nesting: trivia and small datums at top
/// level (read item by item) or inside one list. Stack use must not grow with
/// the number of repetitions.
pub const FLAT_UNITS: &[(&str, &str)] = &[
    ("comment-lines", ";x\n"),
    ("empty-comment-lines", ";\n"),
    ("blank-lines", "\n"),
    ("spaces", " "),
    ("crlf-tab", "\r\n\t"),
    ("form-feeds", "\x0C"),
    ("comment-then-atom", ";c\na "),
    ("atoms", "a "),
    ("numbers", "1 "),
    ("strings", "\"s\" "),
    ("empty-lists", "() "),
    ("quoted", "'a "),
    ("keywords", "#:k "),
    ("chars", "#\\a "),
    ("empty-vectors", "#() "),
    ("byte-vectors", "#u8(1) "),
];

/// One- and two-byte sigils and openers of token kinds, most of them errors or
/// incomplete by themselves: a run of 10^6 of them must be refused (or read) in
/// bounded stack, whatever syntax extension gives them a meaning.
pub const SIGIL_UNITS: &[&str] = &[
    "#;", "#;a ", "#|", "#!", "#'", "#`", "#,", "#,@", "#&", "#=", "##", "#:", "#\\", "#%", "#<", "\\", "|", "{", "}", "?", "?\\", "?\\C-", ".", ". ", "@", ":", "::", "-", "+", "1.", "1e", "#x", "#e", "#i", "^", "~", "_", "\"\" ", "#u8", "#u8()",
];

/// (prefix, unit, Emacs options): one token opener followed by 10^6 repetitions of
/// a modifier / escape / digit group inside that single token.
pub const PREFIXED_UNITS: &[(&str, &str, bool)] = &[
    ("?", "\\C-", true),
    ("?", "\\M-", true),
    ("?", "\\S-", true),
    ("?\\", "^", true),
    ("?", "\\", true),
    ("\"", "\\C-", true),
    ("\"", "\\x41", true),
    ("\"", "\\101", true),
    ("\"", "\\\n", true),
    ("\"", "\\x41;", false),
    ("\"", "\\\n  ", false),
    ("#\\", "x", false),
    ("#\\x", "0", false),
    ("#", "#", false),
    ("#x", "0", false),
    ("1e", "0", false),
    ("1.", "0", false),
    ("#u8(", "#x1 ", false),
    ("'", "'", false),
    ("a", ":", false),
    ("#:", ":", false),
];

/// `vcheck child c03-flat <unit> <reps> <shape> <api> <src>`
pub fn child_flat(args: &[String]) -> i32 {
    let ui = args[0].parse::<usize>().unwrap();
    let (prefix, unit, elisp) = if ui >= 2000 {
        PREFIXED_UNITS[ui - 2000]
    } else if ui >= 1000 {
        ("", SIGIL_UNITS[ui - 1000], false)
    } else {
        ("", FLAT_UNITS[ui].1, false)
    };
    let reps: usize = args[1].parse().unwrap();
    let shape = args[2].clone();
    let api = args[3].clone();
    let src = args[4].clone();
    let mut text = String::with_capacity(unit.len() * reps + 8);
    if shape == "in-list" {
        text.push('(');
    }
    text.push_str(prefix);
    for _ in 0..reps {
        text.push_str(unit);
    }
    if shape == "in-list" {
        text.push(')');
    } else {
        text.push_str("end");
    }
    let h = std::thread::Builder::new()
        .stack_size(2 * 1024 * 1024)
        .spawn(move || {
            let o = if elisp { Q::elisp().to_lexpr() } else { Q::default_().to_lexpr() };
            let mut items = 0u64;
            let mut errs = 0u64;
            macro_rules! drain {
                ($p:expr) => {{
                    let mut p = $p;
                    loop {
                        let r = if api == "datum" { p.next_datum().map(|d| d.map(|d| std::mem::forget(d))) } else { p.next_value().map(|v| v.map(|v| std::mem::forget(v))) };
                        match r {
                            Ok(Some(())) => items += 1,
                            Ok(None) => break,
                            Err(_) => {
                                errs += 1;
                                if errs > 3 {
                                    break;
                                }
                            }
                        }
                        if items > 3_000_000 {
                            break;
                        }
                    }
                }};
            }
            match src.as_str() {
                "str" => drain!(Parser::from_str_custom(&text, o)),
                "slice" => drain!(Parser::from_slice_custom(text.as_bytes(), o)),
                _ => drain!(Parser::from_reader_custom(text.as_bytes(), o)),
            }
            println!("RESULT items={} errors={}", items, errs);
        })
        .unwrap();
    match h.join() {
        Ok(()) => 0,
        Err(_) => 3,
    }
}

fn flat_case(rep: &mut Report, unit: usize, case: u64, big: usize) {
    let (name, _) = FLAT_UNITS[unit];
    let me = std::env::current_exe().unwrap().to_string_lossy().to_string();
    let mut bins = vec![("mon", me)];
    if let Ok(d) = std::env::var("VH_DEV_BIN") {
        if !d.is_empty() {
            bins.push(("dev", d));
        }
    }
    let combos = [("top-level", "value", "str"), ("top-level", "datum", "reader"), ("in-list", "value", "reader"), ("in-list", "datum", "slice"), ("top-level", "value", "slice"), ("in-list", "value", "str")];
    let (shape, api, src) = combos[(case as usize) % combos.len()];
    // the datum API on slice/str input computes positions in O(offset): keep that combination small enough to finish
    let reps: usize = if api == "datum" && src != "reader" { 30_000 } else { big };
    for (label, bin) in bins {
        let args: Vec<String> = vec!["child".into(), "c03-flat".into(), unit.to_string(), reps.to_string(), shape.into(), api.into(), src.into()];
        let r = child::run(&bin, &args, Duration::from_secs(600));
        rep.eval();
        rep.count("flat-child:ran");
        rep.distinct(hash2(hash_bytes(name.as_bytes()), hash2(case, label.len() as u64 + 100)));
        match &r.exit {
            Exit::Code(0) if r.stdout.contains("RESULT items=") => rep.count("flat-child:completed"),
            _ if r.stack_overflow() => rep.violation(
                "stack-overflow",
                format!("C03:stack-overflow:flat:{}", name),
                format!("{} x {} ({}, {} api, {} source, {} build, 2 MiB thread): process died of stack overflow although nothing is nested ({:?}; {})", name, reps, shape, api, src, label, r.exit, r.stderr_tail.lines().last().unwrap_or("")),
                json!({"unit": name, "shape": shape, "api": api, "src": src, "build": label, "reps": reps}),
            ),
            Exit::Timeout => rep.inconclusive(format!("child watchdog fired for flat {} {} {} {}", name, shape, api, src)),
            other => rep.inconclusive(format!("flat child for {} {} {} {} ended unexpectedly: {:?} {}", name, shape, api, src, other, r.stderr_tail)),
        }
    }
}

fn child_case(rep: &mut Report, kind: usize, case: u64) {
    let (name, _, _) = OPENERS[kind];
    let me = std::env::current_exe().unwrap().to_string_lossy().to_string();
    let mut bins = vec![("mon", me)];
    if let Ok(d) = std::env::var("VH_DEV_BIN") {
        if !d.is_empty() {
            bins.push(("dev", d));
        }
    }
    let combos = [("value", "slice"), ("value", "str"), ("value", "reader"), ("datum", "reader")];
    let (api, src) = combos[(case as usize) % combos.len()];
    let units = 1_000_000 / levels_per_unit(name);
    for (label, bin) in bins {
        let args: Vec<String> = vec!["child".into(), "c03-deep".into(), kind.to_string(), units.to_string(), api.into(), src.into(), Q::default_().index().to_string()];
        let r = child::run(&bin, &args, Duration::from_secs(300));
        rep.eval();
        rep.count("child:ran");
        rep.distinct(hash2(hash_bytes(name.as_bytes()), hash2(case, label.len() as u64)));
        match &r.exit {
            Exit::Code(0) if r.stdout.contains("RESULT ERR") => rep.count("child:rejected-with-error"),
            Exit::Code(0) => rep.violation(
                "overdeep-accepted",
                format!("C03:overdeep-accepted:{}", name),
                format!("10^6 levels of {} accepted by {} api from {} ({} build)", name, api, src, label),
                json!({"opener": name, "api": api, "src": src, "build": label}),
            ),
            _ if r.stack_overflow() => rep.violation(
                "stack-overflow",
                format!("C03:stack-overflow:{}", name),
                format!("{} x {} ({} api, {} source, {} build, 2 MiB thread): process died of stack overflow ({:?}; {})", name, units, api, src, label, r.exit, r.stderr_tail.lines().last().unwrap_or("")),
                json!({"opener": name, "api": api, "src": src, "build": label, "units": units}),
            ),
            Exit::Timeout => rep.inconclusive(format!("child watchdog fired for {} {} {}", name, api, src)),
            other => rep.inconclusive(format!("child for {} {} {} ended unexpectedly: {:?} {}", name, api, src, other, r.stderr_tail)),
        }
    }
}

pub fn sets(ctx: &Ctx) -> Vec<CaseSet> {
    let mut out = Vec::new();
    let thorough = ctx.thorough;

    // ---- exhaustive: all strings of length <= 2 over all 256 bytes
    out.push(CaseSet::new(
        "exhaustive-len-le-2",
        257,
        Box::new(move |rep, rng, case| {
            let qs = [Q::default_(), Q::elisp(), Q::all_on()];
            let mut inputs: Vec<Vec<u8>> = Vec::new();
            if case == 256 {
                inputs.push(vec![]);
                for b in 0..=255u8 {
                    inputs.push(vec![b]);
                }
            } else {
                for b in 0..=255u8 {
                    inputs.push(vec![case as u8, b]);
                }
            }
            for i in inputs.iter() {
                for q in qs.iter() {
                    total_check(rep, i, q, "exhaustive<=2", rng, 4);
                }
            }
            rep.count_n("exhaustive:strings-len<=2", inputs.len() as u64);
        }),
    ));

    // ---- exhaustive: all strings of length 3 over the significant alphabet
    let na = ALPHA.len();
    let n_q3: usize = if thorough { N_Q } else { 12 };
    out.push(CaseSet::new(
        "exhaustive-len-3",
        (na * na) as u64,
        Box::new(move |rep, rng, case| {
            let a = ALPHA[(case as usize) / na];
            let b = ALPHA[(case as usize) % na];
            for &c in ALPHA {
                let input = [a, b, c];
                for k in 0..n_q3 {
                    let q = if thorough {
                        Q::from_index(k)
                    } else {
                        match k {
                            0 => Q::default_(),
                            1 => Q::elisp(),
                            2 => Q::all_on(),
                            _ => Q::from_index((crate::rng::hash2(case, k as u64) % N_Q as u64) as usize),
                        }
                    };
                    if thorough {
                        // thorough: one-shot APIs on all 1536 option sets; histories on 3
                        let o = q.to_lexpr();
                        rep.distinct(hash2(hash_bytes(&input), 100_000 + k as u64));
                        let mut m = Mon { rep, input: &input, q: &q, gen_tag: "exhaustive3", failed: false };
                        m.call(Src::Slice, "from_slice_custom", || lexpr::from_slice_custom(&input, o).is_ok());
                        m.call(Src::Reader, "datum::from_reader_custom", || lexpr::datum::from_reader_custom(&input[..], o).is_ok());
                        if k < 3 {
                            total_check(rep, &input, &[Q::default_(), Q::elisp(), Q::all_on()][k], "exhaustive3", rng, 5);
                        }
                    } else {
                        total_check(rep, &input, &q, "exhaustive3", rng, 5);
                    }
                }
            }
            rep.count_n("exhaustive:strings-len3", na as u64);
        }),
    ));

    // ---- generated text up to a few KiB
    let tb = Arc::new(Tables::new());
    let mut cfg = GenCfg::default_dialect();
    cfg.name_ok = gen::any_name;
    let cfg = Arc::new(cfg);
    let (tb1, cfg1) = (tb.clone(), cfg.clone());
    out.push(CaseSet::new(
        "generated-text",
        ctx.size(45_000, 3_000_000),
        Box::new(move |rep, rng, _| {
            let (input, tag): (Vec<u8>, &str) = match rng.below(7) {
                0 | 1 => (text::token_soup(rng, 12), "token-soup"),
                2 => {
                    let mut b = text::token_soup(rng, 12);
                    text::corrupt(rng, &mut b);
                    (b, "corrupted")
                }
                3 => {
                    let v = gen::gen_value(rng, &cfg1, &tb1, 0);
                    (text::mutate(rng, lexpr::to_string(&v).unwrap().as_bytes()), "mutated-printer-output")
                }
                4 => {
                    // long: up to 4 KiB of soup
                    let mut b = Vec::new();
                    while b.len() < 4096 && rng.chance(15, 16) {
                        b.extend(text::token_soup(rng, 40));
                    }
                    b.truncate(4096);
                    (b, "long-soup")
                }
                5 => {
                    // unterminated strings / escapes / chars, lone sigils, truncated UTF-8
                    let pieces: &[&[u8]] = &[b"\"abc", b"\"\\", b"\"\\x41", b"\"\\x", b"#\\", b"#\\x", b"#\\sp", b"?", b"?\\", b"?\\^", b"?\\N{U+", b"?\\u00", b"'", b",@", b"#", b"#:", b"#u", b"#vu", b"#u8", b"#u8(", b"#u8(1", b"(a .", b"(a . b", b"\xCE", b"\xE4\xB8", b"\xF0\x9F\x98", b"\"\xCE", b"#\\\xCE", b"?\xE4", b"\"\\N{U+3bb", b"\"\\u12", b"\"\\U0001"];
                    let mut b = Vec::new();
                    if rng.bool() {
                        b.extend(text::token_soup(rng, 4));
                    }
                    b.extend_from_slice(*rng.pick(pieces));
                    (b, "truncated-constructs")
                }
                _ => {
                    // numbers with very many digits / exponent digits
                    let n = rng.range(1, 3000);
                    let d: String = (0..n).map(|_| (b'0' + rng.below(10) as u8) as char).collect();
                    let s = match rng.below(7) {
                        5 | 6 => {
                            // written exponent + the exponent implied by the digits lands on or
                            // next to the limits of i32 (where abs/negation/addition overflow)
                            let ip = &d[..d.len().min(rng.range(1, 24))];
                            let fp: String = (0..rng.range(0, 24)).map(|_| (b'0' + rng.below(10) as u8) as char).collect();
                            let delta = rng.below(7) as i64 - 3;
                            let neg = rng.bool();
                            let implied = if neg { fp.len() as i64 } else { 0 };
                            let written = if neg { 2147483648i64 - implied + delta } else { 2147483647i64 + delta };
                            let sign = *rng.pick(&["", "-", "+"]);
                            if fp.is_empty() {
                                format!("{}{}e{}{}", sign, ip, if neg { "-" } else { "" }, written)
                            } else {
                                format!("{}{}.{}e{}{}", sign, ip, fp, if neg { "-" } else { "" }, written)
                            }
                        }
                        0 => d,
                        1 => format!("1e{}", d),
                        2 => format!("1e-{}", d),
                        3 => format!("0.{}e{}", d, &d[..d.len().min(12)]),
                        _ => format!("#x{}", d),
                    };
                    (s.into_bytes(), "long-number")
                }
            };
            let q = match rng.below(4) {
                0 => Q::default_(),
                1 => Q::elisp(),
                _ => Q::from_index(rng.below(N_Q)),
            };
            rep.count(&format!("inputs:{}", tag));
            rep.max("max_input_len", input.len() as u64);
            let calls = if input.len() > 1000 { 40 } else { (2 * input.len() + 16).min(300) };
            total_check(rep, &input, &q, tag, rng, calls);
            sample_if_room(rep, || json!({"generator": tag, "input": show(&input[..input.len().min(100)]), "len": input.len(), "options": q.describe()}));
        }),
    ));

    // ---- budget leak hunting: many over-deep groups through one parser
    out.push(CaseSet::new(
        "repeated-overdeep-on-one-parser",
        (OPENERS.len() * 2) as u64,
        Box::new(move |rep, rng, case| {
            let kind = (case as usize) % OPENERS.len();
            let (name, open, _) = OPENERS[kind];
            // 300 groups each deeper than the limit, separated by nothing: the
            // parser fails, and is called again on the remaining input
            let group = open.repeat(140 / levels_per_unit(name) + 2);
            let input: Vec<u8> = group.repeat(300).into_bytes();
            let q = if case as usize >= OPENERS.len() { Q::elisp() } else { Q::default_() };
            rep.count(&format!("leak-hunt:{}", name));
            let input2 = input.clone();
            let r = with_big_stack(move || {
                let mut r = Report::new();
                let mut rng2 = Rng::new(3, "leak", 0, 0);
                let o = q.to_lexpr();
                let mut m = Mon { rep: &mut r, input: &input2, q: &q, gen_tag: "repeated-overdeep", failed: false };
                let mut p = Parser::from_slice_custom(&input2, o);
                m.history(Src::Slice, &mut p, 300, &mut rng2);
                let mut p = Parser::from_reader_custom(&input2[..], o);
                m.history(Src::Reader, &mut p, 300, &mut rng2);
                r
            });
            let _ = rng;
            match r {
                Some(r) => rep.merge(r),
                None => rep.inconclusive("leak-hunt thread died".into()),
            }
        }),
    ));

    // ---- deep nests in-process (gauge) ...
    out.push(CaseSet::new(
        "deep-nests",
        (OPENERS.len() * 10) as u64,
        Box::new(move |rep, _rng, case| {
            deep_case(rep, (case as usize) / 10, case % 10);
        }),
    ));

    // ---- ... and 10^6 deep in child processes (crash monitor)
    let n_child = if thorough { OPENERS.len() * 4 } else { OPENERS.len() };
    out.push(CaseSet::new(
        "million-deep-children",
        n_child as u64,
        Box::new(move |rep, _rng, case| {
            let kind = (case as usize) % OPENERS.len();
            child_case(rep, kind, case / OPENERS.len() as u64 + kind as u64);
        }),
    ));
    // ---- 10^6 repetitions of sigils that are errors or incomplete today
    out.push(CaseSet::new(
        "million-sigils-children",
        SIGIL_UNITS.len() as u64,
        Box::new(move |rep, _rng, case| {
            let name = SIGIL_UNITS[case as usize];
            let me = std::env::current_exe().unwrap().to_string_lossy().to_string();
            let mut bins = vec![("mon", me)];
            if let Ok(d) = std::env::var("VH_DEV_BIN") {
                if !d.is_empty() {
                    bins.push(("dev", d));
                }
            }
            let combos = [("top-level", "value", "slice"), ("in-list", "value", "reader"), ("top-level", "datum", "reader"), ("in-list", "value", "str")];
            let (shape, api, src) = combos[(case as usize) % combos.len()];
            let reps = if thorough { 1_000_000 } else { 300_000 };
            for (label, bin) in bins {
                let args: Vec<String> = vec!["child".into(), "c03-flat".into(), (1000 + case).to_string(), reps.to_string(), shape.into(), api.into(), src.into()];
                let r = child::run(&bin, &args, Duration::from_secs(600));
                rep.eval();
                rep.count("sigil-child:ran");
                rep.distinct(hash2(hash_bytes(name.as_bytes()), hash2(case, label.len() as u64 + 500)));
                match &r.exit {
                    Exit::Code(0) if r.stdout.contains("RESULT items=") => rep.count("sigil-child:completed"),
                    _ if r.stack_overflow() => rep.violation(
                        "stack-overflow",
                        format!("C03:stack-overflow:sigil-run:{}", name.trim()),
                        format!("{:?} x {} ({}, {} api, {} source, {} build, 2 MiB thread): process died of stack overflow ({:?})", name, reps, shape, api, src, label, r.exit),
                        json!({"unit": name, "shape": shape, "api": api, "src": src, "build": label, "reps": reps}),
                    ),
                    Exit::Timeout => rep.inconclusive(format!("child watchdog fired for sigil run {:?}", name)),
                    other => rep.inconclusive(format!("sigil child {:?} ended unexpectedly: {:?} {}", name, other, r.stderr_tail)),
                }
            }
        }),
    ));
    // ---- one token with 10^6 repetitions of an escape / modifier / digit inside it
    out.push(CaseSet::new(
        "million-repetitions-inside-one-token-children",
        PREFIXED_UNITS.len() as u64,
        Box::new(move |rep, _rng, case| {
            let (prefix, unit, elisp) = PREFIXED_UNITS[case as usize];
            let me = std::env::current_exe().unwrap().to_string_lossy().to_string();
            let mut bins = vec![("mon", me)];
            if let Ok(d) = std::env::var("VH_DEV_BIN") {
                if !d.is_empty() {
                    bins.push(("dev", d));
                }
            }
            let combos = [("top-level", "value", "slice"), ("in-list", "value", "reader"), ("top-level", "datum", "reader"), ("top-level", "value", "str")];
            let (shape, api, src) = combos[(case as usize) % combos.len()];
            let reps = if thorough { 1_000_000 } else { 300_000 };
            for (label, bin) in bins {
                let args: Vec<String> = vec!["child".into(), "c03-flat".into(), (2000 + case).to_string(), reps.to_string(), shape.into(), api.into(), src.into()];
                let r = child::run(&bin, &args, Duration::from_secs(600));
                rep.eval();
                rep.count("in-token-child:ran");
                rep.distinct(hash2(hash_bytes(prefix.as_bytes()), hash2(hash_bytes(unit.as_bytes()), hash2(case, label.len() as u64 + 900))));
                match &r.exit {
                    Exit::Code(0) if r.stdout.contains("RESULT items=") => rep.count("in-token-child:completed"),
                    _ if r.stack_overflow() => rep.violation(
                        "stack-overflow",
                        format!("C03:stack-overflow:inside-token:{}{}", prefix, unit.trim()),
                        format!("{:?} followed by {:?} x {} ({}, {} api, {} source, {} options, {} build, 2 MiB thread): process died of stack overflow ({:?})", prefix, unit, reps, shape, api, src, if elisp { "Emacs" } else { "default" }, label, r.exit),
                        json!({"prefix": prefix, "unit": unit, "shape": shape, "api": api, "src": src, "build": label, "reps": reps}),
                    ),
                    Exit::Timeout => rep.inconclusive(format!("child watchdog fired for {:?}+{:?}", prefix, unit)),
                    other => rep.inconclusive(format!("in-token child {:?}+{:?} ended unexpectedly: {:?} {}", prefix, unit, other, r.stderr_tail)),
                }
            }
        }),
    ));
    // ---- 10^6 repetitions of un-nested units (comment lines, blanks, small datums)
    let n_flat = if thorough { FLAT_UNITS.len() * 6 } else { FLAT_UNITS.len() };
    out.push(CaseSet::new(
        "million-flat-repetitions-children",
        n_flat as u64,
        Box::new(move |rep, _rng, case| {
            let unit = (case as usize) % FLAT_UNITS.len();
            flat_case(rep, unit, case / FLAT_UNITS.len() as u64 + unit as u64, if thorough { 1_000_000 } else { 250_000 });
        }),
    ));
    out
}
