//! C05 -- numeric literals denote their exact mathematical value.
//!
//! Oracle: model::num (bignum + correctly rounded f64 + the exactness /
//! accuracy / range clauses), decided per literal on the harness's own scan of
//! the literal text.

use crate::gen::{self, Tables};
use crate::model::num::{self, Expect};
use crate::props::common::*;
use crate::props::PropDef;
use crate::report::Report;
use crate::rng::{hash2, hash_str, Rng};
use crate::run::{CaseSet, Ctx};
use lexpr::Value;
use serde_json::json;
use std::sync::Arc;

pub fn def() -> PropDef {
    PropDef {
        id: "C05",
        level: "exploration",
        rule: "cases = literals of the grammar [#b|#o|#d|#x][+|-]digits and [+|-]digits[.digits][(e|E)[+|-]digits]: every 64-bit boundary x 4 radixes x signs x 0-3 leading zeros (enumerated), random digit strings up to 400 digits per radix, doubles re-spelled from their shortest form (exponent without fraction, explicit +, E, leading/trailing zeros, shifted point), halfway cases around 2^53, subnormals, overflow edge, huge exponents; both feature builds. non-trivial = a literal evaluated by the parser and judged by the bignum/correctly-rounded oracle; distinct = hash of the literal text",
        assumptions: &["Rust's str::parse::<f64> is correctly rounded for arbitrary-length decimal input", "the 60-line bignum is correct (unit-tested)"],
        nofast_too: true,
        min_quick: 100_000,
        min_thorough: 5_000_000,
        sets,
        post: None,
    }
}

fn lit_class(l: &num::Lit) -> String {
    let nd = num_digits(l);
    let size = if nd <= 15 {
        "<=15d"
    } else if nd <= 19 {
        "16-19d"
    } else {
        ">=20d"
    };
    format!(
        "radix{}{}{}:{}",
        l.radix,
        if l.frac_digits.is_some() { "+frac" } else { "" },
        if l.exp.is_some() { "+exp" } else { "" },
        size
    )
}

fn num_digits(l: &num::Lit) -> usize {
    let mut d: Vec<u8> = l.int_digits.clone();
    if let Some(f) = &l.frac_digits {
        d.extend_from_slice(f);
    }
    let mut i = 0;
    while i < d.len() && d[i] == b'0' {
        i += 1;
    }
    d.len() - i
}

/// Judge one literal. Returns None if fine, else (clause, description).
pub fn judge(text: &str, nofast: bool) -> Option<(String, String)> {
    let l = match num::scan_literal(text.as_bytes()) {
        Some(l) => l,
        None => return Some(("harness".into(), format!("generator produced a non-literal {:?}", text))),
    };
    let want = num::expect(&l, nofast);
    let got = lexpr::from_str(text);
    match (&want, got) {
        (Expect::Int(v), Ok(Value::Number(n))) => {
            let ok = !n.is_f64()
                && if *v >= 0 { n.as_u64() == Some(*v as u64) } else { n.as_i64() == Some(*v as i64) };
            if ok {
                None
            } else {
                Some(("integer-exact".into(), format!("{:?} must be the integer {} but parsed as {:?}", text, v, n)))
            }
        }
        (Expect::Float { c, exact, near_overflow }, Ok(Value::Number(n))) => {
            if !n.is_f64() {
                return Some(("float-expected".into(), format!("{:?} must be a float near {:e} but parsed as integer {:?}", text, c, n)));
            }
            let r = n.as_f64().unwrap();
            if *exact {
                if r.to_bits() == c.to_bits() {
                    None
                } else {
                    Some(("exactness".into(), format!("{:?} must be the correctly rounded {:e} ({:016x}) but parsed as {:e} ({:016x})", text, c, c.to_bits(), r, r.to_bits())))
                }
            } else if num::accurate(r, *c) || (*near_overflow && r.is_finite() && num::accurate(r, f64::MAX.copysign(*c))) {
                if *c == 0.0 && r != 0.0 && r.is_sign_negative() != c.is_sign_negative() {
                    return Some(("accuracy".into(), format!("{:?}: wrong sign of (near-)zero result {:e}", text, r)));
                }
                None
            } else {
                let rel = if *c != 0.0 { ((r - c) / c).abs() } else { f64::INFINITY };
                Some(("accuracy".into(), format!("{:?}: correctly rounded value {:e}, parsed {:e}, relative error {:e} > 2^-50", text, c, r, rel)))
            }
        }
        (Expect::Float { near_overflow, .. }, Err(e)) => {
            if *near_overflow && err_kind(&e) == "number out of range" {
                None
            } else {
                Some((format!("rejects-in-range:{}", err_kind(&e)), format!("{:?} is an in-range literal of the grammar but was rejected: {}", text, e)))
            }
        }
        (Expect::Int(_), Err(e)) => Some((format!("rejects-in-range:{}", err_kind(&e)), format!("{:?} is an integer literal of the grammar but was rejected: {}", text, e))),
        (Expect::OutOfRange { near_max }, Ok(Value::Number(n))) => {
            let r = n.as_f64().unwrap_or(f64::NAN);
            if *near_max && n.is_f64() && r.is_finite() && num::accurate(r.abs(), f64::MAX) {
                None
            } else {
                Some(("out-of-range-accepted".into(), format!("{:?} is too large for a double but parsed as {:?}", text, n)))
            }
        }
        (Expect::OutOfRange { .. }, Err(e)) => {
            if err_kind(&e) == "number out of range" {
                None
            } else {
                Some((format!("out-of-range-wrong-error:{}", err_kind(&e)), format!("{:?} is too large for a double; expected 'number out of range', got: {}", text, e)))
            }
        }
        (_, Ok(other)) => Some(("not-a-number".into(), format!("{:?} parsed as non-number {}", text, dbg_value(&other)))),
    }
}

fn check(rep: &mut Report, text: &str, nofast: bool, stream: &str) {
    rep.eval();
    match judge(text, nofast) {
        None => {
            rep.distinct(hash_str(text));
            rep.count(&format!("ok:{}", stream));
            sample_if_room(rep, || json!({"stream": stream, "literal": text}));
        }
        Some((clause, detail)) => {
            if clause == "harness" {
                rep.inconclusive(detail);
                return;
            }
            let class = num::scan_literal(text.as_bytes()).map(|l| lit_class(&l)).unwrap_or_default();
            let shown: String = text.chars().take(120).collect();
            rep.violation("literal", format!("C05:{}:{}", clause, class), detail.chars().take(400).collect(), json!({"literal": shown, "literal_len": text.len()}));
        }
    }
}

fn to_radix(mut v: u128, radix: u32, upper: bool) -> String {
    if v == 0 {
        return "0".into();
    }
    let mut s = Vec::new();
    while v > 0 {
        let d = (v % radix as u128) as u32;
        let c = std::char::from_digit(d, radix).unwrap();
        s.push(if upper { c.to_ascii_uppercase() } else { c });
        v /= radix as u128;
    }
    s.iter().rev().collect()
}

fn random_digits(rng: &mut Rng, radix: u32, n: usize) -> String {
    (0..n)
        .map(|_| {
            let c = std::char::from_digit(rng.below(radix as usize) as u32, radix).unwrap();
            if rng.bool() {
                c.to_ascii_uppercase()
            } else {
                c
            }
        })
        .collect()
}

/// Re-spell the shortest decimal form of a double in many equivalent ways.
fn respell(rng: &mut Rng, f: f64) -> String {
    let s = format!("{:e}", f.abs()); // d.ddde<exp>
    let (m, e) = s.split_once('e').unwrap();
    let digits: String = m.chars().filter(|c| c.is_ascii_digit()).collect();
    let e: i64 = e.parse().unwrap();
    let n = digits.len() as i64;
    let sign = if f.is_sign_negative() { "-" } else if rng.chance(1, 8) { "+" } else { "" };
    let ech = if rng.bool() { "e" } else { "E" };
    let lead = ["", "", "0", "000"][rng.below(4)];
    let body = match rng.below(7) {
        0 => format!("{:?}", f.abs()), // ryu-like shortest (may be exponent without fraction)
        1 => {
            // integer significand with exponent, no fraction: DDDDe(p)
            format!("{}{}{}{}", lead, digits, ech, e - (n - 1))
        }
        2 => {
            // d.ddd e exp with explicit sign
            if n > 1 {
                format!("{}{}.{}{}{}{}", lead, &digits[..1], &digits[1..], ech, if e >= 0 { "+" } else { "" }, e)
            } else {
                format!("{}{}.0{}{}{}", lead, digits, ech, if e >= 0 { "+" } else { "" }, e)
            }
        }
        3 => {
            // shifted point: 0.00ddd e (exp + k)
            let k = rng.range(1, 4) as i64;
            format!("0.{}{}{}{}", "0".repeat((k - 1) as usize), digits, ech, e + k)
        }
        4 => {
            // trailing zeros in fraction
            let z = "0".repeat(rng.range(1, 5));
            if n > 1 {
                format!("{}.{}{}{}{}", &digits[..1], &digits[1..], z, ech, e)
            } else {
                format!("{}.{}{}{}", digits, z, ech, e)
            }
        }
        5 => {
            // positional notation when the magnitude is moderate
            if (-8..=25).contains(&e) {
                if e >= n - 1 {
                    format!("{}{}{}.0", lead, digits, "0".repeat((e - (n - 1)) as usize))
                } else if e >= 0 {
                    format!("{}{}.{}", lead, &digits[..(e + 1) as usize], &digits[(e + 1) as usize..])
                } else {
                    format!("0.{}{}", "0".repeat((-e - 1) as usize), digits)
                }
            } else {
                format!("{}{}{}", digits, ech, e - (n - 1))
            }
        }
        _ => {
            // exponent with leading zeros
            let p = e - (n - 1);
            format!("{}{}{}00{}", digits, ech, if p < 0 { "-" } else { "" }, p.abs())
        }
    };
    format!("{}{}", sign, body)
}

pub fn sets(ctx: &Ctx) -> Vec<CaseSet> {
    let tb = Arc::new(Tables::new());
    let nofast = ctx.nofast;
    let mut out = Vec::new();

    // 1. enumerated integer boundaries x radix x sign x leading zeros x case
    let tb1 = tb.clone();
    let n_b = tb.ints.len() as u64;
    out.push(CaseSet::new(
        "int-boundaries",
        n_b,
        Box::new(move |rep, _rng, case| {
            let x = tb1.ints[case as usize];
            let mag = x.unsigned_abs();
            // also magnitudes just outside the 64-bit range
            let mags = [mag, mag + (1u128 << 64), (1u128 << 64) + 1, (1u128 << 63) + 1, mag * 3 + (1u128 << 65)];
            for m in mags {
                for (radix, prefixes) in [(2u32, vec!["#b"]), (8, vec!["#o"]), (10, vec!["", "#d"]), (16, vec!["#x"])] {
                    for prefix in prefixes {
                        for sign in ["", "+", "-"] {
                            for zeros in ["", "0", "00", "000"] {
                                for upper in [false, true] {
                                    if upper && radix != 16 {
                                        continue;
                                    }
                                    let t = format!("{}{}{}{}", prefix, sign, zeros, to_radix(m, radix, upper));
                                    check(rep, &t, nofast, "int-boundary");
                                }
                            }
                        }
                    }
                }
            }
        }),
    ));

    // 1b. decimal literals whose digit string runs through a 64-bit boundary: the
    // decimal point at every position of the boundary's digits, followed by
    // digits that round down / half / up, with and without an exponent
    let tb1b = tb.clone();
    let thorough = ctx.thorough;
    out.push(CaseSet::new(
        "decimal-point-through-int-boundaries",
        n_b,
        Box::new(move |rep, _rng, case| {
            let x = tb1b.ints[case as usize];
            let digits = x.unsigned_abs().to_string();
            let tails: &[&str] = if thorough { &["", "0", "1", "4", "5", "6", "9", "49", "50", "51", "99", "4999999999999999999999", "5000000000000000000000", "5000000000000000000001", "000"] } else { &["", "0", "4", "5", "9", "50", "99", "5000000000000000000001"] };
            let exps: &[&str] = if thorough { &["", "e0", "e1", "e-1", "e3", "E-3", "e+19", "e-19", "e22", "e-22", "e23", "e290"] } else { &["", "e3", "E-3", "e+19"] };
            for sign in ["", "-"] {
                for pos in 0..=digits.len() {
                    for tail in tails {
                        for e in exps {
                            let ip = &digits[..pos];
                            let fp = format!("{}{}", &digits[pos..], tail);
                            if ip.is_empty() || (fp.is_empty() && e.is_empty()) {
                                // ".5" is not a literal of the grammar; a bare integer is stream 1's
                                if ip.is_empty() {
                                    let t = format!("{}0.{}{}", sign, fp, e);
                                    check(rep, &t, nofast, "decimal-boundary");
                                }
                                continue;
                            }
                            let t = if fp.is_empty() { format!("{}{}{}", sign, ip, e) } else { format!("{}{}.{}{}", sign, ip, fp, e) };
                            check(rep, &t, nofast, "decimal-boundary");
                        }
                    }
                }
            }
        }),
    ));

    // 1c. literals of 70 KB - 1 MB whose huge written exponent is compensated by the digit
    // string, so that the value is small and known (12.5): the exponent arithmetic must
    // keep every digit of the exponent
    out.push(CaseSet::new(
        "huge-compensated-literals",
        ctx.size(8, 32),
        Box::new(move |rep, _rng, case| {
            let ns = [70_000usize, 655_360, 700_001, 1_000_000, 99_999, 65_536, 131_072, 250_000];
            let n = ns[(case as usize) % ns.len()];
            let neg = (case / 8) % 2 == 1;
            let form = (case / 16) % 2;
            let lit = if form == 0 {
                format!("{}125{}e-{}", if neg { "-" } else { "" }, "0".repeat(n), n + 1)
            } else {
                format!("{}0.{}125e{}", if neg { "-" } else { "" }, "0".repeat(n), n + 2)
            };
            let want = if neg { -12.5 } else { 12.5 };
            rep.max("max_literal_bytes", lit.len() as u64);
            for (src, r) in [("str", lexpr::from_str(&lit)), ("reader", lexpr::from_reader(lit.as_bytes()))] {
                rep.eval();
                rep.distinct(hash2(case, hash_str(src)));
                let ok = match &r {
                    Ok(Value::Number(x)) if x.is_f64() => num::accurate(x.as_f64().unwrap(), want),
                    _ => false,
                };
                if ok {
                    rep.count("huge-literal:ok");
                } else {
                    rep.violation(
                        "huge-literal",
                        format!("C05:huge-compensated-literal:form{}", form),
                        format!("a {}-byte literal ({}) denoting exactly {} read from {} as {:?}", lit.len(), if form == 0 { "125 followed by n zeros, e-(n+1)" } else { "0.<n zeros>125 e(n+2)" }, want, src, r.as_ref().map(|v| format!("{:?}", v)).map_err(|e| e.to_string())),
                        json!({"n": n, "form": form, "neg": neg}),
                    );
                    return;
                }
            }
        }),
    ));

    // 2. random digit strings up to 400 digits
    out.push(CaseSet::new(
        "random-digit-strings",
        ctx.size(360_000, 6_000_000),
        Box::new(move |rep, rng, _| {
            let (radix, prefix) = *rng.pick(&[(2u32, "#b"), (8, "#o"), (10, ""), (10, "#d"), (16, "#x")]);
            let n = match rng.below(6) {
                0 => rng.range(1, 400),
                1 => rng.range(60, 70),
                2 => rng.range(15, 25),
                _ => rng.range(1, 40),
            };
            let sign = *rng.pick(&["", "+", "-"]);
            let t = format!("{}{}{}", prefix, sign, random_digits(rng, radix, n));
            check(rep, &t, nofast, "random-int");
            // decimal with random fraction / exponent
            let ip = { let n_ = rng.range(1, 25); random_digits(rng, 10, n_) };
            let fp = { let n_ = rng.range(1, 30); random_digits(rng, 10, n_) };
            let e = rng.below(700) as i64 - 350;
            let t2 = match rng.below(3) {
                0 => format!("{}{}.{}", sign, ip, fp),
                1 => format!("{}{}e{}", sign, ip, e),
                _ => format!("{}{}.{}E{}", sign, ip, fp, e),
            };
            check(rep, &t2, nofast, "random-decimal");
        }),
    ));

    // 3. doubles re-spelled
    out.push(CaseSet::new(
        "respelled-doubles",
        ctx.size(1_000_000, 18_000_000),
        Box::new(move |rep, rng, _| {
            let f = gen::gen_f64(rng);
            let t = respell(rng, f);
            check(rep, &t, nofast, "respelled");
            rep.count(&format!("shape:{}", leaf_class(&Value::from(f))));
        }),
    ));

    // 4. special regions
    out.push(CaseSet::new(
        "special-regions",
        ctx.size(240_000, 3_000_000),
        Box::new(move |rep, rng, _| {
            let mut break_out: Option<String> = None;
            let t = match rng.below(9) {
                8 => {
                    // over-long significands (19-20 digits) in the lowest subnormal decades
                    let d: String = (0..rng.range(18, 21)).map(|i| if i == 0 { (b'1' + rng.below(9) as u8) as char } else { (b'0' + rng.below(10) as u8) as char }).collect();
                    match rng.below(3) {
                        0 => format!("{}e-{}", d, rng.range(330, 346)),
                        1 => format!("{}.{}e-{}", &d[..1], &d[1..], rng.range(312, 326)),
                        _ => format!("0.{}{}", "0".repeat(rng.range(318, 325)), d),
                    }
                }
                0 => {
                    // halfway cases around 2^53: integers 2^53 + small, with .5 fractions
                    let base = (1u64 << 53) + rng.below(64) as u64 - 32;
                    match rng.below(3) {
                        0 => format!("{}.5", base),
                        1 => format!("{}.0", base),
                        _ => format!("{}.{}", base, ["49999999999999999999", "50000000000000000001", "5000000000000000000"][rng.below(3)]),
                    }
                }
                1 => {
                    // subnormals
                    let f = f64::from_bits(rng.next_u64() & 0x000F_FFFF_FFFF_FFFF);
                    respell(rng, f)
                }
                2 => {
                    // overflow edge
                    (*rng.pick::<&str>(&[
                        "1.7976931348623157e308",
                        "1.7976931348623158e308",
                        "1.7976931348623159e308",
                        "1.797693134862315807e308",
                        "1.797693134862315808e308",
                        "1.8e308",
                        "17976931348623157e292",
                        "17976931348623159e292",
                        "179769313486231570000000000000000000000000000000000000000000000000000000000000000000000000000000000000000000000000000000000000000000000000000000000000000000000000000000000000000000000000000000000000000000000000000000000000000000000000000000000000000000000000000000000000000000000000000000000000000000000000000000.0",
                        "1e308",
                        "9e307",
                        "1e309",
                        "-1e309",
                        "2e308",
                    ]))
                    .to_string()
                }
                3 => {
                    // huge / tiny exponents
                    if rng.chance(1, 3) {
                        // written exponent close to the i32 limits combined with an implied
                        // exponent in the same direction (many integer / fraction digits)
                        let base: i64 = 2147483647 - rng.below(400) as i64;
                        let (m, neg) = match rng.below(4) {
                            0 => ("1".to_string() + &"0".repeat(rng.range(19, 40)), false),
                            1 => ("0.".to_string() + &"0".repeat(rng.range(1, 40)) + "1", true),
                            2 => ("123456789012345678901234567890".to_string(), false),
                            _ => ("0.000001".to_string(), true),
                        };
                        break_out = Some(format!("{}e{}{}", m, if neg { "-" } else { "" }, base));
                    }
                    let e = *rng.pick::<&str>(&["400", "-400", "4000", "-4000", "2147483647", "-2147483647", "2147483640", "-2147483640", "2147483648", "-2147483648", "9999999999999", "-9999999999999", "99999999999999999999999", "-99999999999999999999999", "0000400"]);
                    let m = *rng.pick::<&str>(&["1", "0", "0.0", "1.5", "123456789", "-1", "-0", "0.000001", "00", "100000000000000000000000", "0.01", "0.000000000000000000001"]);
                    if break_out.is_none() && rng.chance(1, 4) {
                        // exponent digits padded with leading zeros (any number of them)
                        let k = rng.range(1, 30);
                        let small = rng.below(320);
                        let sign = *rng.pick(&["", "-", "+"]);
                        break_out = Some(format!("{}e{}{}{}", m, sign, "0".repeat(k), small));
                    }
                    match break_out.take() {
                        Some(t) => t,
                        None => format!("{}e{}", m, e),
                    }
                }
                4 => {
                    // many digits: more than 19 significant digits
                    let d = { let n_ = rng.range(20, 60); random_digits(rng, 10, n_) };
                    let k = rng.range(1, d.len() - 1);
                    format!("{}.{}e{}", &d[..k], &d[k..], rng.below(40) as i64 - 20)
                }
                5 => {
                    // powers of ten with Clinger-boundary exponents
                    let m = rng.next_u64() >> rng.range(11, 63);
                    let e = *rng.pick(&[-23i64, -22, -21, 21, 22, 23, 0, 1, -1]);
                    format!("{}e{}", m, e)
                }
                6 if rng.bool() => {
                    // integer part 0 and a fraction with many leading zeros (no exponent, or one that brings it back)
                    let k = rng.range(1, 45);
                    let d = { let n_ = rng.range(1, 25); random_digits(rng, 10, n_) };
                    match rng.below(3) {
                        0 => format!("0.{}{}", "0".repeat(k), d),
                        1 => format!("-0.{}{}e{}", "0".repeat(k), d, k + rng.below(5)),
                        _ => format!("{}.{}{}", "0".repeat(rng.range(1, 4)), "0".repeat(k), d),
                    }
                }
                6 => {
                    // zero in many spellings
                    (*rng.pick::<&str>(&["0.0", "-0.0", "0e0", "-0e0", "0.000", "0e-5", "-0.0e+10", "00.00", "0e400", "-0e-400", "+0.0"])).to_string()
                }
                _ => {
                    // 16-19 digit significands (exact in the nofast build only)
                    let d = { let n_ = rng.range(16, 19); random_digits(rng, 10, n_) };
                    format!("{}e{}", d.trim_start_matches('0').to_string() + "1", rng.below(60) as i64 - 30)
                }
            };
            check(rep, &t, nofast, "special");
        }),
    ));

    // 5. every number the printer emits is such a literal and reads back as the same number
    let tb5 = tb.clone();
    out.push(CaseSet::new(
        "printer-output",
        ctx.size(500_000, 9_000_000),
        Box::new(move |rep, rng, _| {
            let v = if rng.bool() { Value::Number(gen::int_to_number(gen::gen_int(rng, &tb5.ints))) } else { Value::from(gen::gen_f64(rng)) };
            let text = lexpr::to_string(&v).unwrap();
            rep.eval();
            let l = num::scan_literal(text.as_bytes());
            if l.is_none() {
                rep.violation("printer-literal", format!("C05:printer-not-literal:{}", leaf_class(&v)), format!("printer emits {:?} for {:?}, not a literal of the grammar", text, v), json!({"text": text}));
                return;
            }
            // reads back as the same number
            let ok = match lexpr::from_str(&text) {
                Ok(Value::Number(n)) => {
                    let o = v.as_number().unwrap();
                    if o.is_f64() {
                        n.is_f64() && num::float_roundtrip_ok(o.as_f64().unwrap(), n.as_f64().unwrap(), nofast)
                    } else {
                        !n.is_f64() && n.as_u64() == o.as_u64() && n.as_i64() == o.as_i64()
                    }
                }
                _ => false,
            };
            if ok {
                rep.distinct(hash_str(&text));
                rep.count("ok:printer-output");
            } else {
                rep.violation("printer-readback", format!("C05:printer-readback:{}", leaf_class(&v)), format!("{:?} printed as {:?} does not read back as the same number: {:?}", v, text, lexpr::from_str(&text)), json!({"text": text}));
            }
            // and the general judge agrees on the printed text
            check(rep, &text, nofast, "printer-output-judged");
        }),
    ));
    out
}
