//! C15 -- list construction, traversal, conversion and indexing are consistent.
//!
//! Oracle: a Vec-based reference model (xs, t) of a list: element sequence and
//! tail (normalised: a tail that is itself a list is merged into the chain).

use crate::gen::{self, GenCfg, Tables};
use crate::model::cmp::{veq, FloatRule};
use crate::props::common::*;
use crate::props::PropDef;
use crate::report::Report;
use crate::rng::{hash2, hash_str, Rng};
use crate::run::{CaseSet, Ctx};
use lexpr::{Cons, Value};
use serde_json::json;
use std::sync::Arc;

pub fn def() -> PropDef {
    PropDef {
        id: "C15",
        level: "exploration",
        rule: "cases = (element sequence xs, tail t, construction route, accessor); lists of length 0..300 (quick) / ..10^4 (thorough) with elements of every kind and tails of every kind incl. lists that merge; association lists with duplicate keys of all three name kinds, non-pair entries and improper tails; non-list values as indexing targets. non-trivial = an accessor decision against the Vec model; distinct = hash of (printed list, accessor, index)",
        assumptions: &["the Vec model (xs,t) and its normalisation are correct", "Debug rendering of Value is injective enough to serve as a case hash"],
        nofast_too: false,
        min_quick: 200_000,
        min_thorough: 5_000_000,
        sets,
        post: None,
    }
}

struct Model {
    xs: Vec<Value>,
    t: Value,
}

fn normalise(mut xs: Vec<Value>, t: Value) -> Model {
    // a tail that is a list merges into the chain
    let mut t = t;
    loop {
        match t {
            Value::Cons(c) => {
                let (car, cdr) = c.into_pair();
                xs.push(car);
                t = cdr;
            }
            other => return Model { xs, t: other },
        }
    }
}

fn same(a: &Value, b: &Value) -> bool {
    veq(a, b, FloatRule::Bits).is_ok()
}

struct C<'a> {
    rep: &'a mut Report,
    base: u64,
    route: &'static str,
    desc: &'a str,
}

impl<'a> C<'a> {
    fn that(&mut self, acc: &str, idx: u64, ok: bool, what: impl FnOnce() -> String) {
        self.rep.eval();
        self.rep.distinct(hash2(self.base, hash2(hash_str(acc), idx)));
        if !ok {
            self.rep.violation(
                acc,
                format!("C15:{}:{}", acc, self.route),
                format!("{} on list built by {} [{}]: {}", acc, self.route, self.desc, what()),
                json!({"accessor": acc, "route": self.route, "list": self.desc, "index": idx}),
            );
        }
    }
}

/// Check every accessor of `l` against the model.
fn check_list(rep: &mut Report, l: &Value, m: &Model, route: &'static str, rng: &mut Rng) {
    let desc: String = dbg_value(l);
    let base = hash_str(&format!("{}|{:?}", route, l));
    let mut c = C { rep, base, route, desc: &desc };
    let n = m.xs.len();
    let proper = matches!(m.t, Value::Null);

    if n == 0 {
        // append([], t) is t itself
        c.that("empty-append", 0, same(l, &m.t), || "Value::append of no elements is not the tail".into());
        if proper {
            // the empty list: every traversal yields nothing, and it is a proper list
            let ok = l.to_vec().map_or(false, |v| v.is_empty())
                && l.to_ref_vec().map_or(false, |v| v.is_empty())
                && l.list_iter().map_or(false, |mut it| it.next().is_none())
                && l.is_list()
                && !l.is_dotted_list()
                && l.get(0usize).is_none()
                && l[0usize].is_nil()
                && l.as_cons().is_none();
            c.that("empty-list-traversals", 0, ok, || format!("(): to_vec={:?} to_ref_vec={:?} list_iter.is_some={} is_list={} is_dotted_list={}", l.to_vec().map(|v| v.len()), l.to_ref_vec().map(|v| v.len()), l.list_iter().is_some(), l.is_list(), l.is_dotted_list()));
        }
        return;
    }
    let cell: &Cons = match l.as_cons() {
        Some(x) => x,
        None => {
            c.that("as_cons", 0, false, || "non-empty list is not a cons".into());
            return;
        }
    };

    // predicates
    c.that("is_list", 0, l.is_list() == proper, || format!("is_list={} but tail is {:?}", l.is_list(), m.t));
    c.that("is_dotted_list", 0, l.is_dotted_list() == !proper, || format!("is_dotted_list={} but tail is {:?}", l.is_dotted_list(), m.t));

    // vector conversions
    let (v1, t1) = cell.to_vec();
    c.that("Cons::to_vec", 0, v1.len() == n && v1.iter().zip(&m.xs).all(|(a, b)| same(a, b)) && same(&t1, &m.t), || {
        format!("got {} elements, tail {:?}", v1.len(), t1)
    });
    let (v2, t2) = cell.to_ref_vec();
    c.that("Cons::to_ref_vec", 0, v2.len() == n && v2.iter().zip(&m.xs).all(|(a, b)| same(a, b)) && same(t2, &m.t), || {
        format!("got {} elements, tail {:?}", v2.len(), t2)
    });
    let (v3, t3) = cell.clone().into_vec();
    c.that("Cons::into_vec", 0, v3.len() == n && v3.iter().zip(&m.xs).all(|(a, b)| same(a, b)) && same(&t3, &m.t), || {
        format!("got {} elements, tail {:?}", v3.len(), t3)
    });
    let vv = l.to_vec();
    c.that(
        "Value::to_vec",
        0,
        match &vv {
            Some(v) => proper && v.len() == n && v.iter().zip(&m.xs).all(|(a, b)| same(a, b)),
            None => !proper,
        },
        || format!("returned {:?} for tail {:?}", vv.as_ref().map(|v| v.len()), m.t),
    );
    let vr = l.to_ref_vec();
    c.that(
        "Value::to_ref_vec",
        0,
        match &vr {
            Some(v) => proper && v.len() == n && v.iter().zip(&m.xs).all(|(a, b)| same(a, b)),
            None => !proper,
        },
        || format!("returned {:?} for tail {:?}", vr.as_ref().map(|v| v.len()), m.t),
    );

    // cell iteration
    let mut count = 0usize;
    let mut cells_ok = true;
    {
        let mut it = cell.iter();
        loop {
            let pk = it.peek().map(|p| p as *const Cons);
            match it.next() {
                Some(cl) => {
                    if pk != Some(cl as *const Cons) {
                        cells_ok = false;
                    }
                    if count >= n || !same(cl.car(), &m.xs[count]) {
                        cells_ok = false;
                    }
                    count += 1;
                    if count > n + 2 {
                        break;
                    }
                }
                None => {
                    if pk.is_some() {
                        cells_ok = false;
                    }
                    break;
                }
            }
        }
    }
    c.that("Cons::iter", 0, cells_ok && count == n, || format!("visited {} cells, expected {}", count, n));
    let count2 = (&*cell).into_iter().count();
    c.that("&Cons::into_iter", 0, count2 == n, || format!("visited {} cells, expected {}", count2, n));

    // element iterator protocol: xs..., then for t != (): None, t, None
    for (name, mut it) in [("Cons::list_iter", cell.list_iter()), ("Value::list_iter", l.list_iter().unwrap_or_else(|| cell.list_iter()))] {
        if name == "Value::list_iter" {
            c.that("Value::list_iter-some", 0, l.list_iter().is_some(), || "None for a cons".into());
        }
        let mut ok = true;
        let mut why = String::new();
        for i in 0..n {
            if it.is_empty() {
                ok = false;
                why = format!("is_empty before element {}", i);
            }
            let pk = it.peek().map(|p| p as *const Value);
            match it.next() {
                Some(x) if same(x, &m.xs[i]) => {
                    if pk != Some(x as *const Value) {
                        ok = false;
                        why = format!("peek disagrees with next at {}", i);
                    }
                }
                other => {
                    ok = false;
                    why = format!("element {}: got {:?}", i, other.map(dbg_value));
                    break;
                }
            }
        }
        if ok {
            if proper {
                if !it.is_empty() || it.peek().is_some() || it.next().is_some() || it.next().is_some() || !it.is_empty() {
                    ok = false;
                    why = "proper list: iterator not exhausted after last element".into();
                }
            } else {
                let e1 = it.is_empty();
                let p1 = it.peek().is_some();
                let a = it.next().is_some(); // must be None
                let e2 = it.is_empty();
                let pk = it.peek().map(|p| same(p, &m.t));
                let b = it.next();
                let e3 = it.is_empty();
                let c3 = it.next().is_some();
                if e1 || p1 || a || e2 || pk != Some(true) || !b.map_or(false, |x| same(x, &m.t)) || !e3 || c3 {
                    ok = false;
                    why = format!(
                        "dotted protocol: is_empty={},peek={},next={} / is_empty={},peek==t:{:?},next==t:{} / is_empty={},next={}",
                        e1, p1, a, e2, pk, b.map_or(false, |x| same(x, &m.t)), e3, c3
                    );
                }
            }
        }
        c.that(name, 0, ok, || why);
    }

    // consuming iterator
    {
        let mut it = cell.clone().into_iter();
        let mut ok = true;
        let mut why = String::new();
        for i in 0..n {
            let pk_ok = it.peek().map_or(false, |p| same(p.car(), &m.xs[i])) && it.peek_mut().is_some();
            match it.next() {
                Some((car, rest)) => {
                    let last = i == n - 1;
                    let rest_ok = if last { rest.as_ref().map_or(false, |r| same(r, &m.t)) } else { rest.is_none() };
                    if !same(&car, &m.xs[i]) || !rest_ok || !pk_ok {
                        ok = false;
                        why = format!("item {}: car ok={}, rest={:?}, peek ok={}", i, same(&car, &m.xs[i]), rest.map(|r| dbg_value(&r)), pk_ok);
                        break;
                    }
                }
                None => {
                    ok = false;
                    why = format!("ended after {} items", i);
                    break;
                }
            }
        }
        if ok && (it.peek().is_some() || it.next().is_some()) {
            ok = false;
            why = "yields more than |xs| items".into();
        }
        c.that("Cons::into_iter", 0, ok, || why);
    }

    // positional indexing
    let mut idxs: Vec<usize> = vec![0, n - 1, n, n + 1, usize::MAX, usize::MAX - 1, n / 2];
    // indices that alias a valid one when truncated to 8, 16, 31, 32 or 63 bits
    for k in [8u32, 16, 31, 32, 33, 48, 63] {
        if (k as usize) < usize::BITS as usize {
            let b = 1usize << k;
            for j in [0, 1, n / 2, n - 1] {
                idxs.push(b.wrapping_add(j));
            }
            idxs.push(b - 1);
        }
    }
    for _ in 0..4 {
        idxs.push(rng.below(n + 3));
    }
    for i in idxs {
        let want: Option<&Value> = m.xs.get(i);
        let got = l.get(i);
        let got_ref = l.get(&i);
        let by_index = &l[i];
        let ok = match want {
            Some(w) => got.map_or(false, |g| same(g, w)) && got_ref.map_or(false, |g| same(g, w)) && same(by_index, w),
            None => got.is_none() && got_ref.is_none() && by_index.is_nil(),
        };
        c.that("index-usize", i as u64, ok, || format!("index {}: get={:?} [..]={:?} want={:?}", i, got.map(dbg_value), dbg_value(by_index), want.map(dbg_value)));
    }
}

fn gen_tail(rng: &mut Rng, cfg: &GenCfg, tb: &Tables) -> Value {
    match rng.below(10) {
        0..=3 => Value::Null,
        4 => Value::Nil,
        5 => Value::vector(vec![gen::gen_atom(rng, cfg, tb)]),
        6 => {
            // another list: merges into the chain
            let k = rng.range(1, 3);
            let items: Vec<Value> = (0..k).map(|_| gen::gen_atom(rng, cfg, tb)).collect();
            if rng.bool() {
                Value::list(items)
            } else {
                Value::append(items, gen::gen_atom(rng, cfg, tb))
            }
        }
        _ => gen::gen_atom(rng, cfg, tb),
    }
}

fn build_cons_nested(xs: &[Value], t: &Value) -> Value {
    let mut v = t.clone();
    for x in xs.iter().rev() {
        v = Value::cons(x.clone(), v);
    }
    v
}

fn build_from_tuple(xs: &[Value], t: &Value) -> Value {
    let mut v = t.clone();
    for x in xs.iter().rev() {
        v = Value::from((x.clone(), v));
    }
    v
}

/// Builds the chain from placeholder cells that are then overwritten through
/// the four mutators (set_car / car_mut for elements, set_cdr / cdr_mut for links).
fn build_by_mutation(xs: &[Value], t: &Value) -> Value {
    if xs.is_empty() {
        return t.clone();
    }
    let mut head = lexpr::Cons::new(Value::symbol("placeholder"), Value::Nil);
    {
        let mut cur: &mut lexpr::Cons = &mut head;
        for (i, x) in xs.iter().enumerate() {
            if i % 2 == 0 {
                cur.set_car(x.clone());
            } else {
                *cur.car_mut() = x.clone();
            }
            if i + 1 == xs.len() {
                if i % 3 == 0 {
                    cur.set_cdr(t.clone());
                } else {
                    *cur.cdr_mut() = t.clone();
                }
                break;
            }
            let next = lexpr::Cons::new(Value::Bool(false), Value::symbol("unset"));
            if i % 3 == 1 {
                cur.set_cdr(Value::Cons(next));
            } else {
                *cur.cdr_mut() = Value::Cons(next);
            }
            cur = match cur.cdr_mut() {
                Value::Cons(c) => c,
                _ => unreachable!("harness: the link just stored is a cons"),
            };
        }
    }
    Value::Cons(head)
}

fn case_list(rep: &mut Report, rng: &mut Rng, cfg: &GenCfg, tb: &Tables, max_len: usize) {
    let n = match rng.below(10) {
        0 => 0,
        1 => 1,
        2 => 2,
        3 => rng.range(0, max_len),
        _ => rng.range(0, 12),
    };
    let xs: Vec<Value> = (0..n)
        .map(|_| if n > 40 { gen::gen_atom(rng, cfg, tb) } else { gen::gen_value(rng, cfg, tb, 3) })
        .collect();
    let t = gen_tail(rng, cfg, tb);
    let routes: Vec<(&'static str, Value)> = {
        let mut r = vec![
            ("Value::append", Value::append(xs.clone(), t.clone())),
            ("nested Value::cons", build_cons_nested(&xs, &t)),
            ("nested From<(T,U)>", build_from_tuple(&xs, &t)),
            ("Cons::new + set_car/car_mut/set_cdr/cdr_mut", build_by_mutation(&xs, &t)),
            // iterators whose size_hint has no useful lower bound (filter, from_fn, take_while, chain of options)
            ("Value::append(filter)", Value::append(xs.clone().into_iter().filter(|_| true), t.clone())),
            ("Value::append(from_fn)", {
                let mut it = xs.clone().into_iter();
                Value::append(std::iter::from_fn(move || it.next()), t.clone())
            }),
            ("Value::append(take_while+flat_map)", Value::append(xs.clone().into_iter().take_while(|_| true).flat_map(Some), t.clone())),
        ];
        if matches!(t, Value::Null) {
            r.push(("Value::list", Value::list(xs.clone())));
            r.push(("Value::list(skip_while)", Value::list(xs.clone().into_iter().skip_while(|_| false))));
        }
        r
    };
    let m = normalise(xs, t);
    rep.count(if matches!(m.t, Value::Null) { "lists:proper" } else { "lists:dotted" });
    rep.max("max_list_len", m.xs.len() as u64);
    for (route, l) in routes.iter() {
        check_list(rep, l, &m, route, rng);
    }
    // all routes must be ==
    for w in routes.windows(2) {
        rep.eval();
        if w[0].1 != w[1].1 || !same(&w[0].1, &w[1].1) {
            rep.violation(
                "routes-equal",
                format!("C15:routes-equal:{}!={}", w[0].0, w[1].0),
                format!("{} and {} build different lists: {} vs {}", w[0].0, w[1].0, dbg_value(&w[0].1), dbg_value(&w[1].1)),
                json!({}),
            );
        }
    }
    sample_if_room(rep, || json!({"xs_len": m.xs.len(), "tail": dbg_value(&m.t), "list": dbg_value(&routes[0].1)}));
}

fn case_parsed(rep: &mut Report, rng: &mut Rng, max_len: usize) {
    // lists built by the parser from text written by the harness (simple atoms only)
    let n = rng.range(1, max_len.min(200));
    let mut text = String::from("(");
    let mut xs = Vec::new();
    for i in 0..n {
        if i > 0 {
            text.push(' ');
        }
        match rng.below(3) {
            0 => {
                let k = rng.below(1000) as u64;
                text.push_str(&k.to_string());
                xs.push(Value::from(k));
            }
            1 => {
                let s = format!("s{}", rng.below(50));
                text.push_str(&s);
                xs.push(Value::symbol(s));
            }
            _ => {
                let s = format!("str{}", rng.below(50));
                text.push_str(&format!("\"{}\"", s));
                xs.push(Value::string(s));
            }
        }
    }
    let t = if rng.bool() {
        Value::Null
    } else {
        text.push_str(" . tail");
        Value::symbol("tail")
    };
    text.push(')');
    rep.eval();
    match lexpr::from_str(&text) {
        Ok(l) => {
            let m = normalise(xs, t);
            check_list(rep, &l, &m, "parser", rng);
        }
        Err(e) => rep.violation("parser-route", "C15:parser-route:rejects".into(), format!("parser rejects {:?}: {}", text, e), json!({"text": text})),
    }
}

#[derive(Clone)]
enum Entry {
    Pair(Value, Value),
    Other(Value),
}

fn case_alist(rep: &mut Report, rng: &mut Rng, cfg: &GenCfg, tb: &Tables) {
    // plain names, and names that look like the printed form of another key
    let names = ["a", "b", "key", "k2", "", "nil", "λ", "#:a", ":a", "a:", "\"a\"", "#:key", "|a|", "'a"];
    let n = rng.range(0, 10);
    let mut entries = Vec::new();
    for _ in 0..n {
        let e = match rng.below(10) {
            0 => Entry::Other(gen::gen_atom(rng, cfg, tb)),
            1 => Entry::Other(Value::list(Vec::<Value>::new())),
            2 => Entry::Other(Value::vector(vec![Value::symbol("a"), Value::from(1)])),
            3 => {
                // keys that are NOT names but carry the text of a probed name
                let name = *rng.pick(&names);
                let key = match rng.below(5) {
                    0 => Value::bytes(name.as_bytes().to_vec()),
                    1 => Value::list(vec![Value::symbol(name)]),
                    2 => Value::vector(vec![Value::string(name)]),
                    3 => name.chars().next().map(Value::Char).unwrap_or(Value::Null),
                    _ => Value::from(rng.below(4) as u64),
                };
                Entry::Pair(key, gen::gen_atom(rng, cfg, tb))
            }
            4 => {
                // list-valued keys one of which is a prefix of another (proper and dotted)
                let k = rng.range(0, 3);
                let mut items: Vec<Value> = (0..k).map(|i| Value::from(i as u32 + 1)).collect();
                if rng.chance(1, 4) {
                    items.insert(0, Value::symbol("a"));
                }
                let key = if items.is_empty() { Value::list(vec![Value::symbol("a")]) } else if rng.chance(1, 4) { Value::append(items, Value::from(9u32)) } else { Value::list(items) };
                Entry::Pair(key, gen::gen_atom(rng, cfg, tb))
            }
            _ => {
                let name = *rng.pick(&names);
                let key = match rng.below(3) {
                    0 => Value::string(name),
                    1 => Value::symbol(name),
                    _ => Value::keyword(name),
                };
                let val = if rng.bool() { gen::gen_atom(rng, cfg, tb) } else { gen::gen_value(rng, cfg, tb, 3) };
                Entry::Pair(key, val)
            }
        };
        entries.push(e);
    }
    let tail = if rng.chance(1, 4) { gen::gen_atom(rng, cfg, tb) } else { Value::Null };
    // a tail that is itself a pair entry would extend the alist; keep atoms only
    let items: Vec<Value> = entries
        .iter()
        .map(|e| match e {
            Entry::Pair(k, v) => Value::cons(k.clone(), v.clone()),
            Entry::Other(o) => o.clone(),
        })
        .collect();
    let chain: Vec<Value> = items.clone();
    let alist = Value::append(items, tail);
    let desc = dbg_value(&alist);
    let base = hash_str(&format!("alist|{:?}", alist));
    rep.count("alists");
    // model: entries as they appear in the chain (an entry that is a cons cell
    // counts as a pair whatever its shape: (a) is the pair (a . ()))
    let lookup_name = |name: &str| -> Option<Value> {
        for e in chain.iter() {
            if let Some((k, v)) = e.as_pair() {
                let kn = match k {
                    Value::String(s) | Value::Symbol(s) | Value::Keyword(s) => Some(&**s),
                    _ => None,
                };
                if kn == Some(name) {
                    return Some(v.clone());
                }
            }
        }
        None
    };
    let lookup_value = |key: &Value| -> Option<Value> {
        for e in chain.iter() {
            if let Some((k, v)) = e.as_pair() {
                if same(k, key) {
                    return Some(v.clone());
                }
            }
        }
        None
    };
    let mut c = C { rep, base, route: "alist", desc: &desc };
    for (i, name) in names.iter().chain(["zz", "missing"].iter()).enumerate() {
        let want = lookup_name(name);
        let owned: String = name.to_string();
        let g1 = alist.get(*name);
        let g2 = alist.get(&owned);
        let g3 = alist.get(owned.clone());
        let ix = &alist[*name];
        let ix2 = &alist[&owned];
        let ok = match &want {
            Some(w) => [g1, g2, g3].iter().all(|g| g.map_or(false, |g| same(g, w))) && same(ix, w) && same(ix2, w),
            None => g1.is_none() && g2.is_none() && g3.is_none() && ix.is_nil() && ix2.is_nil(),
        };
        c.that("alist-by-name", i as u64, ok, || {
            format!("name {:?}: get={:?} [..]={} want={:?}", name, g1.map(dbg_value), dbg_value(ix), want.as_ref().map(dbg_value))
        });
    }
    let mut keys: Vec<Value> = vec![
        Value::string("a"),
        Value::symbol("a"),
        Value::keyword("a"),
        Value::from(0u64),
        Value::from(1u64),
        Value::list(vec![Value::symbol("a")]),
        Value::list(vec![Value::from(1u32)]),
        Value::list(vec![Value::from(1u32), Value::from(2u32)]),
        Value::list(vec![Value::from(1u32), Value::from(2u32), Value::from(3u32)]),
        Value::append(vec![Value::from(1u32)], Value::from(9u32)),
        Value::append(vec![Value::from(1u32), Value::from(2u32)], Value::from(9u32)),
        Value::Nil,
        Value::Null,
    ];
    for e in entries.iter() {
        if let Entry::Pair(k, _) = e {
            keys.push(k.clone());
        }
    }
    for (i, key) in keys.iter().enumerate() {
        let want = lookup_value(key);
        let g1 = alist.get(key);
        let g2 = alist.get(key.clone());
        let ix = &alist[key];
        let ok = match &want {
            Some(w) => g1.map_or(false, |g| same(g, w)) && g2.map_or(false, |g| same(g, w)) && same(ix, w),
            None => g1.is_none() && g2.is_none() && ix.is_nil(),
        };
        c.that("alist-by-value", i as u64, ok, || {
            format!("key {}: get={:?} want={:?}", dbg_value(key), g1.map(dbg_value), want.as_ref().map(dbg_value))
        });
    }
}

fn case_nonlist(rep: &mut Report, rng: &mut Rng, cfg: &GenCfg, tb: &Tables) {
    // any value as indexing target, any index type: never panics; non-lists give None/Nil
    let v = gen::gen_value(rng, cfg, tb, 2);
    let desc = dbg_value(&v);
    let base = hash_str(&format!("nonlist|{:?}", v));
    let mut c = C { rep, base, route: "any-value", desc: &desc };
    let key = gen::gen_atom(rng, cfg, tb);
    let is_listy = v.is_cons();
    let is_vec = v.is_vector();
    for i in [0usize, 1, 7, usize::MAX] {
        let g = v.get(i);
        let ix = &v[i];
        let ok = if let Some(s) = v.as_slice() {
            match s.get(i) {
                Some(w) => g.map_or(false, |g| same(g, w)) && same(ix, w),
                None => g.is_none() && ix.is_nil(),
            }
        } else if is_listy {
            g.is_some() == !ix.is_nil() || g.map_or(false, |x| x.is_nil())
        } else {
            g.is_none() && ix.is_nil()
        };
        c.that("index-any-usize", i as u64, ok, || format!("index {} gives {:?}", i, g.map(dbg_value)));
    }
    let g = v.get("a");
    let gv = v.get(&key);
    let _ = (&v["a"], &v[&key], &v[String::from("k")]);
    c.that("index-any-name", 0, is_listy || (g.is_none() && gv.is_none()), || "name/value lookup on a non-list returned Some".into());
    // kind predicates on non-lists
    if !is_listy && !v.is_null() {
        c.that("nonlist-predicates", 0, !v.is_list() && v.is_dotted_list() && v.list_iter().is_none() && v.to_vec().is_none() && v.to_ref_vec().is_none(), || {
            "is_list/is_dotted_list/list_iter/to_vec on a non-list".into()
        });
    }
    if v.is_null() {
        c.that("null-predicates", 0, v.is_list() && !v.is_dotted_list() && v.list_iter().map_or(false, |mut i| i.next().is_none() && i.is_empty()) && v.to_vec() == Some(vec![]), || {
            "empty list predicates".into()
        });
    }
    let _ = is_vec;
}

pub fn sets(ctx: &Ctx) -> Vec<CaseSet> {
    let tb = Arc::new(Tables::new());
    let mut cfg = GenCfg::default_dialect();
    cfg.max_depth = 4;
    let cfg = Arc::new(cfg);
    let max_len = ctx.size(300, 10_000) as usize;
    let (tb1, cfg1) = (tb.clone(), cfg.clone());
    let (tb2, cfg2) = (tb.clone(), cfg.clone());
    let (tb3, cfg3) = (tb.clone(), cfg.clone());
    vec![
        CaseSet::new("lists", ctx.size(24_000, 150_000), Box::new(move |rep, rng, _| case_list(rep, rng, &cfg1, &tb1, max_len))),
        CaseSet::new("parsed-lists", ctx.size(8_000, 40_000), Box::new(move |rep, rng, _| case_parsed(rep, rng, max_len))),
        CaseSet::new("alists", ctx.size(120_000, 1_000_000), Box::new(move |rep, rng, _| case_alist(rep, rng, &cfg2, &tb2))),
        CaseSet::new("any-value-index", ctx.size(160_000, 1_500_000), Box::new(move |rep, rng, _| case_nonlist(rep, rng, &cfg3, &tb3))),
    ]
}
