//! C18 -- deserializing any S-expression value is total and self-consistent.

use crate::fam::{family, Fam, G};
use crate::gen::{self, GenCfg, Tables};
use crate::mon::panics;
use crate::props::common::dbg_value;
use crate::props::PropDef;
use crate::report::Report;
use crate::rng::{hash2, hash_str, Rng};
use crate::run::{CaseSet, Ctx};
use lexpr::Value;
use serde_json::json;
use serde_lexpr::error::Category;
use std::sync::Arc;

pub fn def() -> PropDef {
    PropDef {
        id: "C18",
        level: "exploration",
        rule: "cases = (S-expression value v, target type T of the C04 family): v is either an arbitrary value from G (all kinds, improper lists, keywords, nil, vectors) or a near miss derived from the documented shape of a valid T value by 1-3 structural mutations (list<->vector, improper tail, drop/duplicate/reorder entry, non-pair alist entry, symbol<->string<->keyword, widen/negate/float-ify a number, wrap/unwrap a list level, nil/null substitution). from_value::<T>(&v) under catch_unwind: never panics; an Err is Data-category; an Ok(x) satisfies from_value(to_value(x)) == x. non-trivial = one (v,T) pair judged; distinct = hash of (T, v)",
        assumptions: &["a panic whose location is inside /repo sources is a library panic; others are harness bugs (inconclusive)"],
        nofast_too: false,
        min_quick: 200_000,
        min_thorough: 10_000_000,
        sets,
        post: Some(post),
    }
}

fn post(_ctx: &Ctx, rep: &mut Report) {
    let acc = rep.counters.get("accepted").copied().unwrap_or(0);
    let norm = rep.counters.get("accepted:normalised-alternative-encoding").copied().unwrap_or(0);
    let rej = rep.counters.get("rejected:data-error").copied().unwrap_or(0);
    if acc == 0 || rej == 0 || norm == 0 {
        rep.inconclusive(format!("too few events: accepted={} normalised={} rejected={}", acc, norm, rej));
    }
}

fn tname<T>() -> String {
    std::any::type_name::<T>().replace("alloc::string::", "").replace("alloc::vec::", "").replace("alloc::collections::btree::map::", "").replace("alloc::collections::btree::set::", "").replace("core::option::", "").replace("vh::fam::", "").replace("serde_bytes::bytebuf::", "").replace("alloc::boxed::", "")
}

/// Apply one structural mutation at a random node.
pub fn mutate(rng: &mut Rng, v: &Value, tb: &Tables, cfg: &GenCfg) -> Value {
    // descend with probability, else mutate here
    let descend = rng.chance(3, 5);
    match v {
        Value::Cons(c) if descend => {
            let (mut xs, t) = c.to_vec();
            if !xs.is_empty() {
                let i = rng.below(xs.len());
                xs[i] = mutate(rng, &xs[i], tb, cfg);
            }
            return Value::append(xs, t);
        }
        Value::Vector(xs) if descend && !xs.is_empty() => {
            let mut ys = xs.to_vec();
            let i = rng.below(ys.len());
            ys[i] = mutate(rng, &ys[i], tb, cfg);
            return Value::vector(ys);
        }
        _ => {}
    }
    match v {
        Value::Cons(c) => {
            let (mut xs, t) = c.to_vec();
            match rng.below(10) {
                0 => Value::vector(xs), // list -> vector
                1 => Value::append(xs, gen::gen_atom(rng, cfg, tb)), // improper tail
                2 => {
                    if !xs.is_empty() {
                        let i = rng.below(xs.len());
                        xs.remove(i);
                    }
                    Value::append(xs, t)
                }
                3 => {
                    let i = rng.below(xs.len());
                    let d = xs[i].clone();
                    xs.insert(i, d);
                    Value::append(xs, t)
                }
                4 => {
                    xs.reverse();
                    Value::append(xs, t)
                }
                5 => {
                    // replace an entry by a non-pair
                    let i = rng.below(xs.len());
                    xs[i] = gen::gen_atom(rng, cfg, tb);
                    Value::append(xs, t)
                }
                6 => Value::list(vec![Value::append(xs, t)]), // wrap
                7 => xs.into_iter().next().unwrap_or(Value::Null), // unwrap
                8 => {
                    // swap car/cdr of the first cell
                    Value::cons(c.cdr().clone(), c.car().clone())
                }
                _ => {
                    xs.push(gen::gen_value(rng, cfg, tb, 3));
                    Value::append(xs, t)
                }
            }
        }
        Value::Vector(xs) => {
            let mut ys = xs.to_vec();
            match rng.below(5) {
                0 => Value::list(ys), // vector -> list
                1 => {
                    if !ys.is_empty() {
                        ys.pop();
                    }
                    Value::vector(ys)
                }
                2 => {
                    ys.push(gen::gen_atom(rng, cfg, tb));
                    Value::vector(ys)
                }
                3 => Value::append(ys, gen::gen_atom(rng, cfg, tb)),
                _ => Value::vector(vec![Value::vector(ys)]),
            }
        }
        Value::Symbol(s) => match rng.below(4) {
            0 => Value::string(&**s),
            1 => Value::keyword(&**s),
            2 => Value::symbol(format!("{}x", s)),
            _ => Value::list(vec![v.clone()]),
        },
        Value::String(_) if rng.chance(1, 3) => long_string(rng),
        Value::String(s) => match rng.below(4) {
            0 => Value::symbol(&**s),
            1 => Value::keyword(&**s),
            2 => Value::bytes(s.as_bytes().to_vec()),
            _ => Value::Char(s.chars().next().unwrap_or('x')),
        },
        Value::Number(n) => match rng.below(6) {
            0 => Value::from(n.as_f64().unwrap_or(0.0)),
            1 => Value::from(n.as_f64().unwrap_or(0.0) + 0.5),
            2 => Value::from(n.as_i64().map(|x| x.wrapping_neg()).unwrap_or(-1)),
            3 => Value::from(u64::MAX),
            4 => Value::from(i64::MIN),
            _ => Value::string(format!("{}", n)),
        },
        Value::Null => match rng.below(4) {
            0 => Value::Nil,
            1 => Value::vector(Vec::<Value>::new()),
            2 => Value::list(vec![Value::Null]),
            _ => Value::Bool(false),
        },
        Value::Bool(b) => match rng.below(3) {
            0 => Value::symbol(if *b { "t" } else { "nil" }),
            1 => Value::from(*b as u64),
            _ => Value::Nil,
        },
        Value::Bytes(b) => match rng.below(3) {
            0 => Value::list(b.iter().map(|x| Value::from(*x)).collect::<Vec<_>>()),
            1 => Value::vector(b.iter().map(|x| Value::from(*x)).collect::<Vec<_>>()),
            _ => Value::string(String::from_utf8_lossy(b).to_string()),
        },
        Value::Char(c) => match rng.below(3) {
            0 => Value::string(c.to_string()),
            1 => Value::from(*c as u32),
            _ => Value::symbol(c.to_string()),
        },
        other => match rng.below(2) {
            0 => Value::list(vec![other.clone()]),
            _ => gen::gen_atom(rng, cfg, tb),
        },
    }
}

/// A string of 50-150 bytes with multi-byte characters at varying alignments
/// (error messages quote offending strings; truncation must respect boundaries).
fn long_string(rng: &mut Rng) -> Value {
    let mut s = String::new();
    // lengths around the powers of two at which a message or scratch buffer might be cut
    let target = match rng.below(6) {
        0 => rng.range(60, 70),
        1 => rng.range(124, 134),
        2 => rng.range(250, 264),
        3 => rng.range(508, 520),
        4 => rng.range(1020, 1032),
        _ => rng.range(50, 150),
    };
    let pad = rng.below(4);
    for _ in 0..pad {
        s.push('a');
    }
    while s.len() < target {
        s.push(*rng.pick(&['é', '中', '𝒳', 'λ', 'x']));
    }
    match rng.below(3) {
        0 => Value::string(s),
        1 => Value::symbol(s),
        _ => Value::keyword(s),
    }
}

pub fn run<T: Fam>(rep: &mut Report, rng: &mut Rng, tb: &Tables) {
    let name = tname::<T>();
    let mut cfg = GenCfg::default_dialect();
    cfg.name_ok = gen::any_name;
    cfg.max_depth = 3;
    let (v, origin) = if rng.chance(1, 12) {
        (long_string(rng), "long-string")
    } else if rng.chance(1, 4) {
        (gen::gen_value(rng, &cfg, tb, 0), "arbitrary")
    } else {
        let x = T::gen(rng, G { finite: true, depth: 0 });
        let mut v = x.shape().canonical();
        let k = rng.below(4); // 0 = the valid encoding itself
        for _ in 0..k {
            v = mutate(rng, &v, tb, &cfg);
        }
        (v, if k == 0 { "valid" } else { "near-miss" })
    };
    rep.eval();
    rep.distinct(hash2(hash_str(&name), hash_str(&format!("{:?}", v))));
    let replay = json!({"type": name, "value": dbg_value(&v), "origin": origin});
    match panics::guarded(|| serde_lexpr::from_value::<T>(&v)) {
        Err(p) => {
            if p.in_library() {
                rep.violation("total", format!("C18:panic:{}", p.sig()), format!("from_value::<{}>({}) panicked: {}", name, dbg_value(&v), p.short()), replay);
            } else {
                rep.inconclusive(format!("harness panic: {}", p.short()));
            }
        }
        Ok(Err(e)) => {
            if e.classify() == Category::Data {
                rep.count("rejected:data-error");
                // the error object itself is coherent: readable, no input location (there is
                // no input text), no I/O or parse cause, converts to InvalidData
                use std::error::Error as _;
                let (disp, dbg) = (e.to_string(), format!("{:?}", e));
                let coherent = !disp.is_empty() && !dbg.is_empty() && e.location().is_none() && e.source().is_none();
                let kind = panics::guarded(|| std::io::Error::from(serde_lexpr::from_value::<T>(&v).err().expect("same input, same error")).kind());
                rep.eval();
                if !coherent || !matches!(kind, Ok(std::io::ErrorKind::InvalidData)) {
                    rep.violation("total", format!("C18:data-error-incoherent:{}", name), format!("from_value::<{}>({}): Display {:?}, location {:?}, source {:?}, io kind {:?}", name, dbg_value(&v), disp, e.location().map(|l| (l.line(), l.column())), e.source().map(|s| s.to_string()), kind.map_err(|p| p.short())), replay);
                }
            } else {
                rep.violation("total", format!("C18:error-category:{:?}:{}", e.classify(), name), format!("from_value::<{}>({}) failed with category {:?}: {}", name, dbg_value(&v), e.classify(), e), replay);
            }
        }
        Ok(Ok(x)) => {
            rep.count("accepted");
            rep.count(&format!("accepted:{}", origin));
            // self-consistency: serialize and deserialize again
            rep.eval();
            match panics::guarded(|| serde_lexpr::to_value(&x).map_err(|e| e.to_string()).and_then(|v2| serde_lexpr::from_value::<T>(&v2).map(|z| (v2, z)).map_err(|e| e.to_string()))) {
                Err(p) => {
                    if p.in_library() {
                        rep.violation("consistent", format!("C18:panic:{}", p.sig()), p.short(), replay);
                    } else {
                        rep.inconclusive(format!("harness panic: {}", p.short()));
                    }
                }
                Ok(Err(e)) => rep.violation("consistent", format!("C18:reserialize-fails:{}", name), format!("{}: {} was accepted as {:?}, whose own serialization is rejected: {}", name, dbg_value(&v), x, e), replay),
                Ok(Ok((v2, z))) => {
                    if !x.same(&z, false) {
                        rep.violation("consistent", format!("C18:not-self-consistent:{}", name), format!("{}: {} accepted as {:?}; re-serialized {} reads as {:?}", name, dbg_value(&v), x, dbg_value(&v2), z), replay);
                    } else if crate::model::cmp::veq(&v, &v2, crate::model::cmp::FloatRule::Bits).is_err() {
                        rep.count("accepted:normalised-alternative-encoding");
                        if rep.want_sample() {
                            rep.sample(json!({"type": name, "accepted": dbg_value(&v), "normalised_to": dbg_value(&v2)}));
                        }
                    }
                }
            }
        }
    }
}

#[derive(serde_derive::Deserialize, Debug)]
#[serde(untagged)]
#[allow(dead_code)]
enum Untagged {
    Flag(bool),
    Int(i64),
    Big(u64),
    Real(f64),
    Text(String),
    Pair(i32, String),
    Many(Vec<Untagged>),
    Unit(()),
}

/// Targets whose Deserialize impl is driven by `deserialize_any` (self-describing
/// mode). They are outside the C04 family, so only the first sentence of the
/// statement is demanded of them: a value or a data-category error, never a panic.
fn any_driven(rep: &mut Report, rng: &mut Rng, tb: &Tables) {
    let mut cfg = GenCfg::default_dialect();
    cfg.name_ok = gen::any_name;
    cfg.max_depth = 4;
    let v = if rng.chance(1, 10) { long_string(rng) } else { gen::gen_value(rng, &cfg, tb, 0) };
    let which = rng.below(4);
    let name = ["serde_json::Value", "serde::de::IgnoredAny", "#[serde(untagged)] enum", "Vec<serde::de::IgnoredAny>"][which];
    rep.eval();
    rep.distinct(hash2(hash_str(name), hash_str(&format!("{:?}", v))));
    let r = panics::guarded(|| match which {
        0 => serde_lexpr::from_value::<serde_json::Value>(&v).map(|_| ()),
        1 => serde_lexpr::from_value::<serde::de::IgnoredAny>(&v).map(|_| ()),
        2 => serde_lexpr::from_value::<Untagged>(&v).map(|_| ()),
        _ => serde_lexpr::from_value::<Vec<serde::de::IgnoredAny>>(&v).map(|_| ()),
    });
    let replay = json!({"type": name, "value": dbg_value(&v), "origin": "any-driven"});
    match r {
        Err(p) => {
            if p.in_library() {
                rep.violation("total", format!("C18:panic:{}", p.sig()), format!("from_value::<{}>({}) panicked: {}", name, dbg_value(&v), p.short()), replay);
            } else {
                rep.inconclusive(format!("harness panic: {}", p.short()));
            }
        }
        Ok(Err(e)) => {
            if e.classify() == Category::Data {
                rep.count("any-driven:rejected:data-error");
            } else {
                rep.violation("total", format!("C18:error-category:{:?}:{}", e.classify(), name), format!("from_value::<{}>({}) failed with category {:?}: {}", name, dbg_value(&v), e.classify(), e), replay);
            }
        }
        Ok(Ok(())) => rep.count("any-driven:accepted"),
    }
}

pub fn sets(ctx: &Ctx) -> Vec<CaseSet> {
    let fam = family();
    let n = fam.len() as u64;
    let per = ctx.size(20_000, 900_000);
    let tb = Arc::new(Tables::new());
    let tb2 = tb.clone();
    // every f32 the deserializer can return must survive its own serialization (all 2^32
    // bit patterns in thorough, a seed-dependent 2^24 slice in quick)
    let (f32_blocks, f32_block_len) = if ctx.thorough { (4096u64, 1u64 << 20) } else { (256u64, 1u64 << 16) };
    let f32_offset = if ctx.thorough { 0 } else { ((ctx.seed + 128) % 256) << 16 };
    let thorough = ctx.thorough;
    vec![
        CaseSet::new(
            "f32-self-consistency-all-bit-patterns",
            f32_blocks,
            Box::new(move |rep, _rng, case| {
                let lo = if thorough { case * f32_block_len } else { case * (1u64 << 24) + f32_offset };
                crate::props::c04::f32_block(rep, lo, lo + f32_block_len, "C18");
            }),
        ),
        // a very long list where the target type skips it (unknown struct field, IgnoredAny)
        // or wraps it (Option, map value): total on a default-sized stack, in child processes
        CaseSet::new(
            "long-lists-in-skipped-positions-children",
            4,
            Box::new(move |rep, _rng, case| {
                use crate::mon::child::{self, Exit};
                let op = ["serde-skipped-field", "serde-ignored-any", "serde-option-of-list", "serde-map-value-list"][case as usize];
                let mut bins: Vec<(&str, String)> = Vec::new();
                for (label, var) in [("release", "VH_REL_BIN"), ("dev", "VH_DEV_BIN")] {
                    if let Ok(b) = std::env::var(var) {
                        if !b.is_empty() {
                            bins.push((label, b));
                        }
                    }
                }
                if bins.is_empty() {
                    rep.inconclusive("VH_REL_BIN / VH_DEV_BIN not set".into());
                    return;
                }
                for (label, bin) in bins {
                    let args: Vec<String> = vec!["child".into(), "c16".into(), op.into(), "1000000".into(), "2048".into(), "proper".into(), "int".into()];
                    let r = child::run(&bin, &args, std::time::Duration::from_secs(600));
                    rep.eval();
                    rep.distinct(hash2(hash_str(op), hash_str(label)));
                    match &r.exit {
                        Exit::Code(0) if r.stdout.contains("DONE") => rep.count("skipped-position-children:completed"),
                        _ if r.stack_overflow() => rep.violation(
                            "total",
                            format!("C18:abort:stack-overflow:{}", op),
                            format!("from_value with a 10^6-element list in a {} position ({} build, 2 MiB thread): the process died of stack overflow ({:?})", op, label, r.exit),
                            json!({"op": op, "build": label}),
                        ),
                        Exit::Timeout => rep.inconclusive(format!("child watchdog fired for {}", op)),
                        other => rep.inconclusive(format!("child for {} ended unexpectedly: {:?} {}", op, other, r.stderr_tail)),
                    }
                }
            }),
        ),
        CaseSet::new("any-driven-targets-totality", ctx.size(30_000, 1_500_000), Box::new(move |rep, rng, _| any_driven(rep, rng, &tb2))),
        CaseSet::new(
            "arbitrary-and-near-miss-values-x-type-family",
            n * per,
            Box::new(move |rep, rng, case| {
                let e = &fam[(case % n) as usize];
                (e.c18)(rep, rng, &tb);
            }),
        ),
    ]
}
