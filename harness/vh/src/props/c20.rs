//! C20 -- accessors, conversions and comparisons are coherent.
//!
//! Oracle: a payload model. Every value is built from a known Rust payload;
//! the model says what each accessor and each comparison must return.

use crate::gen::{self, Tables};
use crate::props::common::*;
use crate::props::PropDef;
use crate::report::Report;
use crate::rng::{hash2, hash_str, Rng};
use crate::run::{CaseSet, Ctx};
use lexpr::{Cons, Number, Value};
use serde_json::json;
use std::borrow::Cow;
use std::sync::Arc;

pub fn def() -> PropDef {
    PropDef {
        id: "C20",
        level: "exploration",
        rule: "cases = (value built from a known Rust payload, accessor or primitive operand); generated from boundary tables of all eight integer widths, f32/f64 incl. non-finite, strings/chars/bytes/compound values from G; a case is non-trivial when it is an accessor/conversion/comparison decision on such a pair; distinct = hash of (payload description, operation, operand)",
        assumptions: &[
            "Rust's `as` casts and f64::from(f32) are the mathematical definitions of nearest-double / exact widening",
            "the harness's payload model (40 lines) is correct",
        ],
        nofast_too: false,
        min_quick: 1_000_000,
        min_thorough: 50_000_000,
        sets,
        post: None,
    }
}

#[derive(Clone, Debug)]
enum Payload {
    Int(i128),
    Float(f64),
    Str(String),
    Sym(String),
    Kw(String),
    Bool(bool),
    Char(char),
    Bytes(Vec<u8>),
    Nil,
    Null,
    Cons,
    Vector(usize),
}

impl Payload {
    fn desc(&self) -> String {
        match self {
            Payload::Float(f) => format!("Float({:016x})", f.to_bits()),
            other => format!("{:?}", other),
        }
    }
    fn as_i64(&self) -> Option<i64> {
        match self {
            Payload::Int(x) if *x >= i64::MIN as i128 && *x <= i64::MAX as i128 => Some(*x as i64),
            _ => None,
        }
    }
    fn as_u64(&self) -> Option<u64> {
        match self {
            Payload::Int(x) if *x >= 0 && *x <= u64::MAX as i128 => Some(*x as u64),
            _ => None,
        }
    }
    fn as_f64(&self) -> Option<f64> {
        match self {
            Payload::Int(x) => Some(*x as f64),
            Payload::Float(f) => Some(*f),
            _ => None,
        }
    }
}

struct Built {
    value: Value,
    payload: Payload,
    how: &'static str,
}

fn int_widths(x: i128) -> Vec<(&'static str, Value)> {
    let mut out = Vec::new();
    macro_rules! w {
        ($($t:ty),*) => {$(
            if x >= <$t>::MIN as i128 && x <= <$t>::MAX as i128 {
                out.push((concat!("From<", stringify!($t), ">"), Value::from(x as $t)));
                out.push((concat!("Number::from<", stringify!($t), ">"), Value::from(Number::from(x as $t))));
            }
        )*};
    }
    w!(i8, i16, i32, i64, u8, u16, u32, u64);
    out
}

fn build(rng: &mut Rng, tb: &Tables, cfg: &gen::GenCfg) -> Vec<Built> {
    let mut out = Vec::new();
    match rng.below(14) {
        0..=4 => {
            let x = gen::gen_int(rng, &tb.ints);
            for (how, value) in int_widths(x) {
                out.push(Built { value, payload: Payload::Int(x), how });
            }
        }
        5 | 6 => {
            let f = match rng.below(8) {
                0 => f64::NAN,
                1 => f64::INFINITY,
                2 => f64::NEG_INFINITY,
                3 => -0.0,
                4 => {
                    // integer-valued floats: a float is never an integer
                    (gen::gen_int(rng, &tb.ints) as f64) as f64
                }
                _ => gen::gen_f64(rng),
            };
            out.push(Built { value: Value::from(f), payload: Payload::Float(f), how: "From<f64>" });
            out.push(Built { value: Value::from(Number::from(f)), payload: Payload::Float(f), how: "Number::from<f64>" });
            let g = match rng.below(5) {
                0 => f32::NAN,
                1 => f32::INFINITY,
                2 => f32::MIN_POSITIVE,
                3 => f32::MAX,
                _ => f32::from_bits(rng.next_u32()),
            };
            out.push(Built { value: Value::from(g), payload: Payload::Float(f64::from(g)), how: "From<f32>" });
            if let Some(n) = Number::from_f64(f) {
                out.push(Built { value: Value::from(n), payload: Payload::Float(f), how: "Number::from_f64" });
            } else if f.is_finite() {
                // from_f64 must accept every finite value
                out.push(Built { value: Value::Nil, payload: Payload::Float(f), how: "Number::from_f64-rejected-finite" });
            }
        }
        7 => {
            let s = gen::gen_string(rng, 10);
            out.push(Built { value: Value::from(s.as_str()), payload: Payload::Str(s.clone()), how: "From<&str>" });
            out.push(Built { value: Value::from(s.clone()), payload: Payload::Str(s.clone()), how: "From<String>" });
            out.push(Built { value: Value::from(s.clone().into_boxed_str()), payload: Payload::Str(s.clone()), how: "From<Box<str>>" });
            out.push(Built { value: Value::from(Cow::Borrowed(s.as_str())), payload: Payload::Str(s.clone()), how: "From<Cow::Borrowed>" });
            out.push(Built { value: Value::from(Cow::<str>::Owned(s.clone())), payload: Payload::Str(s.clone()), how: "From<Cow::Owned>" });
            out.push(Built { value: Value::string(s.as_str()), payload: Payload::Str(s.clone()), how: "Value::string" });
        }
        8 => {
            let s = gen::gen_string(rng, 8);
            out.push(Built { value: Value::symbol(s.as_str()), payload: Payload::Sym(s.clone()), how: "Value::symbol" });
            out.push(Built { value: Value::keyword(s.as_str()), payload: Payload::Kw(s.clone()), how: "Value::keyword" });
        }
        9 => {
            let b = rng.bool();
            out.push(Built { value: Value::from(b), payload: Payload::Bool(b), how: "From<bool>" });
            let c = gen::gen_char(rng);
            out.push(Built { value: Value::from(c), payload: Payload::Char(c), how: "From<char>" });
        }
        10 => {
            let b = gen::gen_bytes(rng, 10);
            out.push(Built { value: Value::from(&b[..]), payload: Payload::Bytes(b.clone()), how: "From<&[u8]>" });
            out.push(Built { value: Value::from(b.clone()), payload: Payload::Bytes(b.clone()), how: "From<Vec<u8>>" });
            out.push(Built { value: Value::from(b.clone().into_boxed_slice()), payload: Payload::Bytes(b.clone()), how: "From<Box<[u8]>>" });
            out.push(Built { value: Value::bytes(b.clone()), payload: Payload::Bytes(b.clone()), how: "Value::bytes" });
        }
        11 => {
            out.push(Built { value: Value::Nil, payload: Payload::Nil, how: "Nil" });
            out.push(Built { value: Value::Null, payload: Payload::Null, how: "Null" });
        }
        12 => {
            let a = gen::gen_value(rng, cfg, tb, 3);
            let b = gen::gen_value(rng, cfg, tb, 3);
            out.push(Built { value: Value::from((a.clone(), b.clone())), payload: Payload::Cons, how: "From<(T,U)>" });
            out.push(Built { value: Value::from(Cons::new(a.clone(), b.clone())), payload: Payload::Cons, how: "From<Cons>" });
            out.push(Built { value: Value::cons(a, b), payload: Payload::Cons, how: "Value::cons" });
        }
        _ => {
            let n = rng.below(5);
            let items: Vec<Value> = (0..n).map(|_| gen::gen_value(rng, cfg, tb, 3)).collect();
            out.push(Built { value: Value::from(items.clone()), payload: Payload::Vector(n), how: "From<Vec<Value>>" });
            out.push(Built { value: Value::from(items.clone().into_boxed_slice()), payload: Payload::Vector(n), how: "From<Box<[Value]>>" });
            out.push(Built { value: Value::vector(items), payload: Payload::Vector(n), how: "Value::vector" });
        }
    }
    out
}

fn kind_index(p: &Payload) -> usize {
    match p {
        Payload::Nil => 0,
        Payload::Null => 1,
        Payload::Bool(_) => 2,
        Payload::Int(_) | Payload::Float(_) => 3,
        Payload::Char(_) => 4,
        Payload::Str(_) => 5,
        Payload::Sym(_) => 6,
        Payload::Kw(_) => 7,
        Payload::Bytes(_) => 8,
        Payload::Cons => 9,
        Payload::Vector(_) => 10,
    }
}

const KIND_NAMES: [&str; 11] =
    ["nil", "null", "boolean", "number", "char", "string", "symbol", "keyword", "bytes", "cons", "vector"];

fn feq(a: Option<f64>, b: Option<f64>) -> bool {
    match (a, b) {
        (Some(x), Some(y)) => x.to_bits() == y.to_bits(),
        (None, None) => true,
        _ => false,
    }
}

struct Chk<'a> {
    rep: &'a mut Report,
    b: &'a Built,
    base: u64,
}

impl<'a> Chk<'a> {
    fn that(&mut self, op: &str, operand: &str, ok: bool, what: impl FnOnce() -> String) {
        self.rep.eval();
        self.rep.distinct(hash2(self.base, hash_str(&format!("{}|{}", op, operand))));
        if !ok {
            let detail = format!(
                "{} on value built by {} from {}: {}",
                op,
                self.b.how,
                self.b.payload.desc(),
                what()
            );
            self.rep.violation(
                op,
                format!("C20:{}:{}", op, self.b.how),
                detail,
                json!({"payload": self.b.payload.desc(), "how": self.b.how, "op": op, "operand": operand}),
            );
        }
    }
}

fn check_built(rep: &mut Report, b: &Built, rng: &mut Rng, tb: &Tables) {
    let v = &b.value;
    let p = &b.payload;
    rep.count(&format!("built:{}", b.how));
    let base = hash_str(&format!("{}|{}", b.how, p.desc()));
    let mut c = Chk { rep, b, base };

    // ---- (a) exactly one kind applies, and it is the right one
    let preds = [
        v.is_nil(),
        v.is_null(),
        v.is_boolean(),
        v.is_number(),
        v.is_char(),
        v.is_string(),
        v.is_symbol(),
        v.is_keyword(),
        v.is_bytes(),
        v.is_cons(),
        v.is_vector(),
    ];
    let n_true = preds.iter().filter(|x| **x).count();
    let k = kind_index(p);
    c.that("kind-exclusive", "", n_true == 1 && preds[k], || {
        format!(
            "predicates true: {:?}, expected only {}",
            preds.iter().enumerate().filter(|(_, x)| **x).map(|(i, _)| KIND_NAMES[i]).collect::<Vec<_>>(),
            KIND_NAMES[k]
        )
    });

    // ---- (b) is_x <=> as_x.is_some()
    let pairs: [(&str, bool, bool); 12] = [
        ("nil", v.is_nil(), v.as_nil().is_some()),
        ("null", v.is_null(), v.as_null().is_some()),
        ("boolean", v.is_boolean(), v.as_bool().is_some()),
        ("number", v.is_number(), v.as_number().is_some()),
        ("char", v.is_char(), v.as_char().is_some()),
        ("string", v.is_string(), v.as_str().is_some()),
        ("symbol", v.is_symbol(), v.as_symbol().is_some()),
        ("keyword", v.is_keyword(), v.as_keyword().is_some()),
        ("bytes", v.is_bytes(), v.as_bytes().is_some()),
        ("cons", v.is_cons(), v.as_cons().is_some() && v.as_pair().is_some()),
        ("vector", v.is_vector(), v.as_slice().is_some()),
        ("i64/u64", v.is_i64() == v.as_i64().is_some(), v.is_u64() == v.as_u64().is_some()),
    ];
    for (name, is, has) in pairs.iter() {
        if *name == "i64/u64" {
            c.that("is-as-agree", name, *is && *has, || "is_i64/is_u64 disagree with as_i64/as_u64".into());
        } else {
            c.that("is-as-agree", name, is == has, || format!("is_{}={} but as_{}.is_some()={}", name, is, name, has));
        }
    }
    let mut vm = v.clone();
    c.that("is-as-agree", "cons_mut/slice_mut", vm.as_cons_mut().is_some() == v.is_cons() && {
        let mut vm2 = v.clone();
        vm2.as_slice_mut().is_some() == v.is_vector()
    }, || "as_cons_mut / as_slice_mut disagree with is_cons / is_vector".into());

    // ---- (c) as_name
    let want_name: Option<&str> = match p {
        Payload::Str(s) | Payload::Sym(s) | Payload::Kw(s) => Some(s.as_str()),
        _ => None,
    };
    c.that("as_name", "", v.as_name() == want_name, || format!("as_name={:?} expected {:?}", v.as_name(), want_name));

    // ---- (d) payload preserved
    match p {
        Payload::Int(_) | Payload::Float(_) => {
            let is_float = matches!(p, Payload::Float(_));
            c.that("as_i64", "", v.as_i64() == p.as_i64(), || format!("as_i64={:?} expected {:?}", v.as_i64(), p.as_i64()));
            c.that("as_u64", "", v.as_u64() == p.as_u64(), || format!("as_u64={:?} expected {:?}", v.as_u64(), p.as_u64()));
            c.that("as_f64", "", feq(v.as_f64(), p.as_f64()), || format!("as_f64={:?} expected {:?}", v.as_f64(), p.as_f64()));
            c.that("is_i64", "", v.is_i64() == p.as_i64().is_some(), || format!("is_i64={}", v.is_i64()));
            c.that("is_u64", "", v.is_u64() == p.as_u64().is_some(), || format!("is_u64={}", v.is_u64()));
            c.that("is_f64", "", v.is_f64() == is_float, || format!("is_f64={}", v.is_f64()));
            if let Some(n) = v.as_number() {
                c.that(
                    "number-accessors",
                    "",
                    n.as_i64() == p.as_i64()
                        && n.as_u64() == p.as_u64()
                        && feq(n.as_f64(), p.as_f64())
                        && n.is_i64() == p.as_i64().is_some()
                        && n.is_u64() == p.as_u64().is_some()
                        && n.is_f64() == is_float,
                    || "Number accessors disagree with payload".into(),
                );
                // Number PartialEq / Clone coherent
                c.that("number-eq-clone", "", *n == n.clone() || (is_float && p.as_f64().unwrap().is_nan()), || {
                    "Number != its clone".into()
                });
                // Display of Number is the decimal text of the payload
                match p {
                    Payload::Int(x) => {
                        c.that("number-display", "", format!("{}", n) == format!("{}", x), || {
                            format!("Display gives {:?}", format!("{}", n))
                        });
                    }
                    _ => {}
                }
            }
        }
        Payload::Str(s) => {
            c.that("as_str", "", v.as_str() == Some(s.as_str()), || format!("as_str={:?}", v.as_str()));
            c.that("cross", "", v.as_symbol().is_none() && v.as_keyword().is_none(), || "string seen as symbol/keyword".into());
        }
        Payload::Sym(s) => {
            c.that("as_symbol", "", v.as_symbol() == Some(s.as_str()), || format!("as_symbol={:?}", v.as_symbol()));
            c.that("cross", "", v.as_str().is_none() && v.as_keyword().is_none(), || "symbol seen as string/keyword".into());
        }
        Payload::Kw(s) => {
            c.that("as_keyword", "", v.as_keyword() == Some(s.as_str()), || format!("as_keyword={:?}", v.as_keyword()));
            c.that("cross", "", v.as_str().is_none() && v.as_symbol().is_none(), || "keyword seen as string/symbol".into());
        }
        Payload::Bool(x) => c.that("as_bool", "", v.as_bool() == Some(*x), || format!("as_bool={:?}", v.as_bool())),
        Payload::Char(x) => c.that("as_char", "", v.as_char() == Some(*x), || format!("as_char={:?}", v.as_char())),
        Payload::Bytes(x) => c.that("as_bytes", "", v.as_bytes() == Some(&x[..]), || format!("as_bytes={:?}", v.as_bytes())),
        Payload::Nil | Payload::Null => {}
        Payload::Cons => {
            let (a, d) = v.as_pair().unwrap_or((&Value::Nil, &Value::Nil));
            let cell = v.as_cons();
            c.that("as_pair", "", cell.map_or(false, |cl| std::ptr::eq(cl.car(), a) && std::ptr::eq(cl.cdr(), d)), || {
                "as_pair does not expose the cell's car/cdr".into()
            });
        }
        Payload::Vector(n) => {
            c.that("as_slice", "", v.as_slice().map(|s| s.len()) == Some(*n), || format!("as_slice len {:?}", v.as_slice().map(|s| s.len())));
        }
    }
    // accessors of other kinds must be None
    if !matches!(p, Payload::Int(_) | Payload::Float(_)) {
        c.that("numeric-on-non-number", "", v.as_i64().is_none() && v.as_u64().is_none() && v.as_f64().is_none() && !v.is_i64() && !v.is_u64() && !v.is_f64(), || {
            "numeric accessor returned Some on a non-number".into()
        });
    }

    // ---- (e) comparisons with primitives, both operand orders, through refs
    let mi = p.as_i64();
    let mu = p.as_u64();
    let mf = p.as_f64();
    // operands: boundary table + neighbours of the payload
    let mut operands: Vec<i128> = Vec::new();
    for _ in 0..6 {
        operands.push(*rng.pick(&tb.ints));
    }
    if let Payload::Int(x) = p {
        operands.push(*x);
        operands.push(*x + 1);
        operands.push(*x - 1);
        operands.push(-*x);
        // truncations of the payload into narrower widths are the classic trap
        operands.push((*x as i64 as i32) as i128);
        operands.push((*x as u64 as u32) as i128);
        operands.push((*x as u64 as u8) as i128);
        operands.push((*x as i64 as i8) as i128);
    }
    if let Payload::Float(f) = p {
        if f.is_finite() && f.abs() < 1e19 {
            operands.push(*f as i128);
        }
    }
    let mut vmut = v.clone();
    macro_rules! cmp_signed {
        ($($t:ty),*) => {$(
            for o in operands.iter() {
                if *o >= <$t>::MIN as i128 && *o <= <$t>::MAX as i128 {
                    let prim = *o as $t;
                    let want = mi == Some(prim as i64);
                    let got = [*v == prim, prim == *v, &*v == prim, &mut vmut == prim];
                    c.that(concat!("eq-", stringify!($t)), &o.to_string(), got.iter().all(|g| *g == want), || {
                        format!("value == {}{} gives {:?} (forms v==p, p==v, &v==p, &mut v==p), model says {}", prim, stringify!($t), got, want)
                    });
                }
            }
        )*};
    }
    macro_rules! cmp_unsigned {
        ($($t:ty),*) => {$(
            for o in operands.iter() {
                if *o >= <$t>::MIN as i128 && *o <= <$t>::MAX as i128 {
                    let prim = *o as $t;
                    let want = mu == Some(prim as u64);
                    let got = [*v == prim, prim == *v, &*v == prim, &mut vmut == prim];
                    c.that(concat!("eq-", stringify!($t)), &o.to_string(), got.iter().all(|g| *g == want), || {
                        format!("value == {}{} gives {:?}, model says {}", prim, stringify!($t), got, want)
                    });
                }
            }
        )*};
    }
    cmp_signed!(i8, i16, i32, i64);
    cmp_unsigned!(u8, u16, u32, u64);
    // floats
    let mut fops: Vec<f64> = vec![0.0, -0.0, 1.0, f64::NAN, f64::INFINITY, gen::gen_f64(rng)];
    if let Some(f) = mf {
        fops.push(f);
        fops.push(-f);
        fops.push(f as f32 as f64);
        // the neighbouring doubles (1 and 2 ulp away) and the neighbours of its f32 rounding
        if f.is_finite() {
            let b = f.to_bits();
            for d in [1u64, 2] {
                fops.push(f64::from_bits(b.wrapping_add(d)));
                fops.push(f64::from_bits(b.wrapping_sub(d)));
            }
            let b32 = (f as f32).to_bits();
            fops.push(f32::from_bits(b32.wrapping_add(1)) as f64);
            fops.push(f32::from_bits(b32.wrapping_sub(1)) as f64);
        }
    }
    for o in operands.iter().take(4) {
        fops.push(*o as f64);
    }
    for fo in fops.iter() {
        let want = mf.map_or(false, |x| x == *fo);
        let got = [*v == *fo, *fo == *v, &*v == *fo, &mut vmut == *fo];
        c.that("eq-f64", &format!("{:016x}", fo.to_bits()), got.iter().all(|g| *g == want), || {
            format!("value == {:?}f64 gives {:?}, model says {}", fo, got, want)
        });
        let f32o = *fo as f32;
        let want32 = mf.map_or(false, |x| x == f64::from(f32o));
        let got32 = [*v == f32o, f32o == *v, &*v == f32o, &mut vmut == f32o];
        c.that("eq-f32", &format!("{:08x}", f32o.to_bits()), got32.iter().all(|g| *g == want32), || {
            format!("value == {:?}f32 gives {:?}, model says {}", f32o, got32, want32)
        });
    }
    // bool
    for bo in [true, false] {
        let want = matches!(p, Payload::Bool(x) if *x == bo);
        let got = [*v == bo, bo == *v, &*v == bo, &mut vmut == bo];
        c.that("eq-bool", &bo.to_string(), got.iter().all(|g| *g == want), || format!("value == {} gives {:?}, model says {}", bo, got, want));
    }
    // strings: only Value::String compares equal to a Rust string
    let mut sops: Vec<String> = vec![String::new(), "nil".into(), "t".into(), gen::gen_string(rng, 6)];
    if let Payload::Str(s) | Payload::Sym(s) | Payload::Kw(s) = p {
        sops.push(s.clone());
        let mut s2 = s.clone();
        s2.push('x');
        sops.push(s2);
    }
    // operands that share memory with the value itself: views into its own text
    // (a prefix, a suffix, the whole, the empty view at either end)
    if let Some(own) = v.as_str().or_else(|| v.as_symbol()).or_else(|| v.as_keyword()) {
        let cuts: Vec<usize> = (0..=own.len()).filter(|i| own.is_char_boundary(*i)).collect();
        let mut views: Vec<&str> = vec![own, &own[..0], &own[own.len()..]];
        if let Some(&m) = cuts.get(cuts.len() / 2) {
            views.push(&own[..m]);
            views.push(&own[m..]);
        }
        if cuts.len() > 2 {
            views.push(&own[..cuts[cuts.len() - 2]]);
            views.push(&own[cuts[1]..]);
        }
        for view in views {
            let want = matches!(p, Payload::Str(s) if s == view);
            let got = [*v == *view, *v == view, *view == *v, view == *v];
            c.that("eq-str-view-of-own-text", &format!("{}..+{}", view.as_ptr() as usize - own.as_ptr() as usize, view.len()), got.iter().all(|g| *g == want), || {
                format!("value == a view {:?} of its own text {:?} gives {:?}, model says {}", view, own, got, want)
            });
        }
    }
    // ... and a clone compared with views into the original (equal text, different memory)
    for so in sops.iter() {
        let want = matches!(p, Payload::Str(s) if s == so);
        let sref: &str = so.as_str();
        let got = [*v == *sref, *v == sref, *sref == *v, sref == *v, *v == *so, *so == *v];
        c.that("eq-str", so, got.iter().all(|g| *g == want), || {
            format!("value == {:?} gives {:?} (str, &str, rev str, rev &str, String, rev String), model says {}", so, got, want)
        });
    }
}

pub fn sets(ctx: &Ctx) -> Vec<CaseSet> {
    let tb = Arc::new(Tables::new());
    let n = ctx.size(100_000, 8_000_000);
    let tb1 = tb.clone();
    let mut cfg = gen::GenCfg::default_dialect();
    cfg.max_depth = 4;
    let cfg = Arc::new(cfg);
    let main = CaseSet::new(
        "payload-model",
        n,
        Box::new(move |rep, rng, _case| {
            let builts = build(rng, &tb1, &cfg);
            for b in builts.iter() {
                if b.how == "Number::from_f64-rejected-finite" {
                    rep.eval();
                    rep.violation("from_f64", "C20:from_f64:rejects-finite".into(), format!("Number::from_f64 rejected finite {}", b.payload.desc()), json!({}));
                    continue;
                }
                check_built(rep, b, rng, &tb1);
                sample_if_room(rep, || json!({"built_by": b.how, "payload": b.payload.desc(), "value": dbg_value(&b.value)}));
            }
        }),
    );
    // exhaustive boundary sweep: every table integer through every width it fits
    let tb2 = tb.clone();
    let nb = tb.ints.len() as u64;
    let sweep = CaseSet::new(
        "boundary-sweep",
        nb,
        Box::new(move |rep, rng, case| {
            let x = tb2.ints[case as usize];
            for (how, value) in int_widths(x) {
                let b = Built { value, payload: Payload::Int(x), how };
                check_built(rep, &b, rng, &tb2);
            }
            // from_f64 on non-finite must be None
            rep.eval();
            if Number::from_f64(f64::NAN).is_some() || Number::from_f64(f64::INFINITY).is_some() || Number::from_f64(f64::NEG_INFINITY).is_some() {
                rep.violation("from_f64", "C20:from_f64:accepts-nonfinite".into(), "Number::from_f64 accepted a non-finite value".into(), json!({}));
            }
        }),
    );
    vec![main, sweep]
}
