//! C11 -- source spans delimit exactly the text of each datum.

use crate::gen::text::{self, Lang, LayoutCfg, TriviaSet};
use crate::gen::{self, GenCfg, NameCtx, Tables};
use crate::model::cmp::{veq, FloatRule};
use crate::opts::{Q, N_Q};
use crate::props::c10::walk;
use crate::props::common::*;
use crate::props::PropDef;
use crate::report::{hex, show, Report};
use crate::rng::{hash2, hash_bytes, Rng};
use crate::run::{CaseSet, Ctx};
use lexpr::datum::{Ref, Span};
use lexpr::parse::Read;
use lexpr::{Datum, Parser};
use serde_json::json;
use std::sync::Arc;

pub fn def() -> PropDef {
    PropDef {
        id: "C11",
        level: "exploration",
        rule: "cases = (well-formed input with arbitrary layout, options, source): layout-printer output in both dialects with multi-line trivia (CR/LF/TAB/FF/comments), non-ASCII before and inside datums, datums adjacent to delimiters, quote shorthands, dotted tails, byte vectors; token soup and printer output that parse. For EVERY top-level datum and every sub-datum reachable through list_iter/vector_iter: span inside the input, non-empty, inside the parent's span, after the preceding sibling, and input[start..end] re-parsed with the same options equals the sub-datum's value (quote-shorthand heads cover the sigil); spans compared across &str, &[u8] and stream. non-trivial = one sub-datum's span judged; distinct = hash of (input, options)",
        assumptions: &["offset = byte offset of line start + 0-based byte column; lines are LF-separated"],
        nofast_too: false,
        min_quick: 150_000,
        min_thorough: 5_000_000,
        sets,
        post: Some(post),
    }
}

fn post(_ctx: &Ctx, rep: &mut Report) {
    for k in ["spans:judged", "spans:reparsed-equal", "spans:cross-source-equal", "spans:quote-head", "spans:multi-line-input", "spans:non-ascii-before-datum"] {
        if rep.counters.get(k).copied().unwrap_or(0) == 0 {
            rep.inconclusive(format!("monitor observed no events of kind {}", k));
        }
    }
}

struct Geo {
    line_starts: Vec<usize>,
    len: usize,
}

impl Geo {
    fn new(input: &[u8]) -> Geo {
        let mut ls = vec![0usize];
        for (i, b) in input.iter().enumerate() {
            if *b == b'\n' {
                ls.push(i + 1);
            }
        }
        Geo { line_starts: ls, len: input.len() }
    }
    fn offset(&self, p: lexpr::parse::Position) -> Option<usize> {
        if p.line() == 0 || p.line() > self.line_starts.len() {
            return None;
        }
        let ls = self.line_starts[p.line() - 1];
        // length of this line without its LF; a position may sit at most at
        // the end of its line (on the LF) or at end of input
        let line_len = if p.line() < self.line_starts.len() { self.line_starts[p.line()] - 1 - ls } else { self.len - ls };
        if p.column() > line_len {
            return None;
        }
        let o = ls + p.column();
        Some(o)
    }
    fn range(&self, s: Span) -> Option<(usize, usize)> {
        Some((self.offset(s.start())?, self.offset(s.end())?))
    }
}

fn spos(s: Span) -> String {
    format!("{}:{}-{}:{}", s.start().line(), s.start().column(), s.end().line(), s.end().column())
}

fn datums<'a, R: Read<'a>>(mut p: Parser<R>, cap: usize) -> Option<Vec<Datum>> {
    let mut out = Vec::new();
    for _ in 0..cap {
        match p.next_datum() {
            Ok(Some(d)) => out.push(d),
            Ok(None) => return Some(out),
            Err(_) => return None, // not a well-formed input: out of scope
        }
    }
    Some(out)
}

fn collect_spans(d: &Datum) -> Vec<Span> {
    let mut v = vec![d.span()];
    let mut problems = Vec::new();
    let (mut c, mut dt) = (0u64, 0u64);
    walk(d.as_ref(), 0, &mut problems, &mut c, &mut dt, &mut |r, _, _, _| v.push(r.span()));
    v
}

const SIGILS: [(&str, &str); 4] = [("quote", "'"), ("quasiquote", "`"), ("unquote", ","), ("unquote-splicing", ",@")];

pub fn check_spans(rep: &mut Report, input: &[u8], q: &Q, tag: &str) -> bool {
    let o = q.to_lexpr();
    let geo = Geo::new(input);
    let cap = input.len() + 3;
    let ds = match datums(Parser::from_slice_custom(input, o), cap) {
        Some(d) if !d.is_empty() => d,
        _ => return false,
    };
    rep.distinct(hash2(hash_bytes(input), q.index() as u64));
    if input.contains(&b'\n') {
        rep.count("spans:multi-line-input");
    }
    let replay = json!({"input_hex": hex(input), "options_index": q.index(), "generator": tag});
    let mut viol: Option<(String, String)> = None;
    let mut judged = 0u64;
    let mut reparsed = 0u64;
    let mut quote_heads = 0u64;
    let mut nonascii_before = 0u64;
    {
        let mut judge = |r: Ref<'_>, parent: Option<Ref<'_>>, prev: Option<Ref<'_>>, role: &'static str| {
            if viol.is_some() {
                return;
            }
            judged += 1;
            let sp = r.span();
            let (s, e) = match geo.range(sp) {
                Some(x) => x,
                None => {
                    viol = Some(("outside-input".into(), format!("{} {} has span {} which is not a position in the input", role, dbg_value(r.value()), spos(sp))));
                    return;
                }
            };
            if e <= s {
                viol = Some(("empty-span".into(), format!("{} {} has empty or inverted span {} (offsets {}..{})", role, dbg_value(r.value()), spos(sp), s, e)));
                return;
            }
            if input[..s].iter().any(|b| *b >= 0x80) {
                nonascii_before += 1;
            }
            if let Some(p) = parent {
                if let Some((ps, pe)) = geo.range(p.span()) {
                    if s < ps || e > pe {
                        viol = Some(("not-inside-parent".into(), format!("{} {} span {} (offsets {}..{}) is not inside its parent's span {} ({}..{})", role, dbg_value(r.value()), spos(sp), s, e, spos(p.span()), ps, pe)));
                        return;
                    }
                }
            }
            if let Some(pv) = prev {
                if let Some((_, pe)) = geo.range(pv.span()) {
                    if s < pe {
                        viol = Some(("overlaps-sibling".into(), format!("{} {} starts at offset {} before its preceding sibling ends at {}", role, dbg_value(r.value()), s, pe)));
                        return;
                    }
                }
            }
            let text = &input[s..e];
            // quote shorthand head: its span covers just the shorthand characters
            // (the head may also surface as an element of an enclosing list when
            // the shorthand form is a dotted tail: (a . 'b) = (a quote b))
            if let Some(name) = r.value().as_symbol() {
                if let Some((_, sig)) = SIGILS.iter().find(|(n, _)| *n == name) {
                    if text == sig.as_bytes() {
                        quote_heads += 1;
                        return;
                    }
                    // written with the shorthand but covering something else?
                    if let Some(p) = parent {
                        if let Some((ps, _)) = geo.range(p.span()) {
                            if ps == s && prev.is_none() && input[ps..].starts_with(sig.as_bytes()) && !(name == "unquote" && input[ps..].starts_with(b",@")) && !input[ps..].starts_with(name.as_bytes()) {
                                viol = Some(("quote-head-span".into(), format!("head of shorthand form covers {:?} instead of {:?}", show(text), sig)));
                                return;
                            }
                        }
                    }
                }
            }
            match lexpr::from_slice_custom(text, o) {
                Ok(v) => {
                    if veq(r.value(), &v, FloatRule::Bits).is_err() {
                        viol = Some(("reparse-differs".into(), format!("{} {} has span {} covering {:?}, which parses to {}", role, dbg_value(r.value()), spos(sp), show(text), dbg_value(&v))));
                    } else {
                        reparsed += 1;
                    }
                }
                Err(err) => {
                    viol = Some(("reparse-fails".into(), format!("{} {} has span {} covering {:?}, which does not parse on its own: {}", role, dbg_value(r.value()), spos(sp), show(text), err)));
                }
            }
        };
        let mut prev_top: Option<Ref<'_>> = None;
        for d in ds.iter() {
            judge(d.as_ref(), None, prev_top, "top-level");
            let mut problems = Vec::new();
            let (mut c, mut dt) = (0u64, 0u64);
            walk(d.as_ref(), 0, &mut problems, &mut c, &mut dt, &mut judge);
            prev_top = Some(d.as_ref());
        }
    }
    rep.evals(judged);
    rep.count_n("spans:judged", judged);
    rep.count_n("spans:reparsed-equal", reparsed);
    rep.count_n("spans:quote-head", quote_heads);
    rep.count_n("spans:non-ascii-before-datum", nonascii_before);
    if let Some((kind, detail)) = viol {
        rep.violation("span", format!("C11:{}:slice", kind), format!("input {:?} with {}: {}", show(input), q.describe(), detail), replay);
        return true;
    }
    // the same spans from every source
    let base: Vec<Vec<Span>> = ds.iter().map(collect_spans).collect();
    // ... and from a parser on which other calls (expect_end, which peeks and may
    // report an error position) are interleaved between the items
    {
        rep.eval();
        let interleaved = |spans_of: &mut dyn FnMut() -> Option<Vec<Vec<Span>>>| spans_of();
        let mut run_slice = || -> Option<Vec<Vec<Span>>> {
            let mut p = Parser::from_slice_custom(input, o);
            let mut out = Vec::new();
            for _ in 0..cap {
                let _ = p.expect_end();
                match p.next_datum() {
                    Ok(Some(d)) => out.push(collect_spans(&d)),
                    Ok(None) => return Some(out),
                    Err(_) => return None,
                }
                let _ = p.expect_end();
            }
            Some(out)
        };
        match interleaved(&mut run_slice) {
            Some(sp) if sp == base => rep.count("spans:stable-under-interleaved-calls"),
            other => {
                let mut msg = "different items".to_string();
                if let Some(sp) = &other {
                    'f: for (a, b) in base.iter().zip(sp.iter()) {
                        for (x, y) in a.iter().zip(b.iter()) {
                            if x != y {
                                msg = format!("a fresh parser reports {} but a parser with expect_end() calls between the items reports {}", spos(*x), spos(*y));
                                break 'f;
                            }
                        }
                    }
                }
                rep.violation("history", "C11:spans-depend-on-call-history:slice".into(), format!("input {:?} with {}: {}", show(input), q.describe(), msg), replay.clone());
                return true;
            }
        }
        if let Ok(st) = std::str::from_utf8(input) {
            let mut p = Parser::from_str_custom(st, o);
            let mut out = Vec::new();
            let mut ok = true;
            for _ in 0..cap {
                let _ = p.expect_end();
                match p.next_datum() {
                    Ok(Some(d)) => out.push(collect_spans(&d)),
                    Ok(None) => break,
                    Err(_) => {
                        ok = false;
                        break;
                    }
                }
            }
            if !ok || out != base {
                rep.violation("history", "C11:spans-depend-on-call-history:str".into(), format!("input {:?} with {}: spans from a &str parser with expect_end() calls between items differ from those of a fresh slice parser", show(input), q.describe()), replay.clone());
                return true;
            }
        }
    }
    let mut others: Vec<(&str, Option<Vec<Datum>>)> = vec![("stream", datums(Parser::from_reader_custom(input, o), cap))];
    if let Ok(s) = std::str::from_utf8(input) {
        others.push(("str", datums(Parser::from_str_custom(s, o), cap)));
    }
    for (name, od) in others {
        rep.eval();
        match od {
            None => {
                rep.violation("cross-source", format!("C11:cross-source:{}-fails", name), format!("{:?} parses from a slice but not from {}", show(input), name), replay.clone());
                return true;
            }
            Some(od) => {
                let spans: Vec<Vec<Span>> = od.iter().map(collect_spans).collect();
                if spans != base {
                    // first difference
                    let mut msg = String::from("different number of datums");
                    'find: for (a, b) in base.iter().zip(spans.iter()) {
                        for (x, y) in a.iter().zip(b.iter()) {
                            if x != y {
                                msg = format!("slice reports {} but {} reports {}", spos(*x), name, spos(*y));
                                break 'find;
                            }
                        }
                    }
                    rep.violation("cross-source", format!("C11:cross-source-spans-differ:{}", name), format!("input {:?} with {}: {}", show(input), q.describe(), msg), replay.clone());
                    return true;
                }
                rep.count("spans:cross-source-equal");
            }
        }
    }
    // owned copies carry the same spans as the datum they were copied from
    for (i, d) in ds.iter().enumerate() {
        for (how, copy) in [("Datum::clone", d.clone()), ("Datum::from(Ref)", Datum::from(d.as_ref()))] {
            rep.eval();
            let sp = collect_spans(&copy);
            if sp != base[i] || copy.value() != d.value() {
                let mut msg = String::from("different shape");
                for (x, y) in base[i].iter().zip(sp.iter()) {
                    if x != y {
                        msg = format!("the parsed datum reports {} where its copy reports {}", spos(*x), spos(*y));
                        break;
                    }
                }
                rep.violation("copy", format!("C11:copy-spans-differ:{}", how), format!("input {:?} with {}: {} of datum #{}: {}", show(input), q.describe(), how, i, msg), replay.clone());
                return true;
            }
            rep.count("spans:copies-equal");
        }
    }
    true
}

pub fn sets(ctx: &Ctx) -> Vec<CaseSet> {
    let tb = Arc::new(Tables::new());
    let mut out = Vec::new();
    let tb1 = tb.clone();
    out.push(CaseSet::new(
        "layouts",
        ctx.size(240_000, 3_000_000),
        Box::new(move |rep, rng, _| {
            let elisp = rng.bool();
            let mut cfg = GenCfg::default_dialect();
            cfg.max_depth = 4;
            cfg.max_items = 5;
            cfg.allow_nil = !elisp;
            cfg.name_ctx = NameCtx { colon_prefix_kw: elisp, colon_postfix_kw: false, elisp_chars: elisp, nil_special: elisp, t_special: false };
            let lc = LayoutCfg { lang: if elisp { Lang::Elisp } else { Lang::Scheme }, trivia: TriviaSet::WithFormFeed, alt_spellings: true, brackets_as_list: !elisp };
            let q = if elisp { Q::elisp() } else { Q::default_() };
            let n = rng.range(1, 3);
            let mut s = String::new();
            if rng.chance(1, 3) {
                // non-ASCII before the first datum: byte vs character columns
                s.push_str("; λ中𝒳 comment\n");
                if rng.bool() {
                    s.push_str("\"λλ\" ");
                }
            }
            for _ in 0..n {
                let v = gen::gen_value(rng, &cfg, &tb1, 1);
                let v = if elisp {
                    crate::model::cmp::map_atoms(&v, &|a| match a {
                        lexpr::Value::Bool(_) | lexpr::Value::Nil => lexpr::Value::symbol("b"),
                        o => o.clone(),
                    })
                } else {
                    v
                };
                s.push_str(&text::layout(rng, &lc, &v));
                s.push(if rng.bool() { '\n' } else { ' ' });
            }
            let used = check_spans(rep, s.as_bytes(), &q, "layout");
            if used {
                rep.count(if elisp { "inputs:layout-elisp" } else { "inputs:layout-scheme" });
                sample_if_room(rep, || json!({"input": crate::report::show_str(&s), "options": q.describe()}));
            } else {
                rep.count("inputs:layout-not-accepted(skipped)");
            }
        }),
    ));
    let tb2 = tb.clone();
    let mut cfg = GenCfg::default_dialect();
    cfg.max_depth = 3;
    let cfg = Arc::new(cfg);
    out.push(CaseSet::new(
        "soup-that-parses",
        ctx.size(500_000, 6_000_000),
        Box::new(move |rep, rng, _| {
            let (input, q, tag) = crate::props::c06::gen_input(rng, &tb2, &cfg, 400);
            let q = if rng.chance(1, 2) { Q::from_index(rng.below(N_Q)) } else { q };
            if check_spans(rep, &input, &q, tag) {
                rep.count(&format!("inputs:{}", tag));
            }
        }),
    ));
    // positions far from the origin: line numbers and byte columns beyond 8 and 16 bits
    out.push(CaseSet::new(
        "far-lines-and-columns",
        35,
        Box::new(move |rep, _rng, case| {
            let ks = [255usize, 256, 257, 65_535, 65_536, 65_537, 70_000];
            let k = ks[(case as usize) % ks.len()];
            let prefix: String = match (case as usize) / ks.len() {
                0 => "\n".repeat(k),
                1 => " ".repeat(k),
                2 => format!(";{}\n", "c".repeat(k)),
                3 => format!("\"{}\" ", "s".repeat(k)),
                _ => format!("\"{}\"\n\n", "é".repeat(k / 2)),
            };
            let input = format!("{}(a \"x\" #(b c) . d)\n  'e [f]", prefix);
            rep.max("max_prefix_before_datum", k as u64);
            for q in [Q::default_(), Q::elisp()] {
                if check_spans(rep, input.as_bytes(), &q, "far-position") {
                    rep.count("inputs:far-position");
                }
            }
        }),
    ));
    out
}
