//! C19 -- parse errors carry an in-bounds location; truncation is reported as EOF.
//!
//! Oracles: location geometry computed by the harness from the input bytes;
//! documented io::ErrorKind mapping; for every proper byte prefix of a text
//! that parses as one datum: if the prefix does not parse, category == Eof.

use crate::gen::text::{self, Lang, LayoutCfg, TriviaSet};
use crate::gen::{self, GenCfg, Tables};
use crate::mon::io::{ChunkReader, Chunking, FaultReader, MARKER};
use crate::opts::{Q, N_Q};
use crate::props::common::*;
use crate::props::PropDef;
use crate::report::{hex, show, Report};
use crate::rng::{hash2, hash_bytes, Rng};
use crate::run::{CaseSet, Ctx};
use lexpr::parse::error::Category;
use serde_json::json;
use std::sync::Arc;

pub fn def() -> PropDef {
    PropDef {
        id: "C19",
        level: "exploration",
        rule: "location clause: cases = (malformed input, options, source in {&str,&[u8],stream}, API in {value, datum}); inputs from token soup, mutated printer output, UTF-8 corruption, multi-line layouts. truncation clause: cases = (well-formed single-datum text, options, proper byte prefix) with EVERY proper prefix of every text enumerated (exhaustive per text); texts = a fixed corpus covering every token kind (#nil #t #f, each radix, decimals with fraction/exponent/both, char names and hex chars, strings with each escape form, #u8/#vu8, vectors, nested and dotted lists, quote sigils, keywords in each spelling, non-ASCII symbols and strings, Emacs chars and strings) + printer and layout-printer output, under default, Emacs and sampled option sets. non-trivial = an error whose location/kind/category was judged; distinct = hash of (input or prefix, options, source)",
        assumptions: &["'number of lines' = number of LF-separated segments; columns are 0-based byte offsets as documented on Position::column"],
        nofast_too: false,
        min_quick: 200_000,
        min_thorough: 10_000_000,
        sets,
        post: Some(post),
    }
}

fn post(_ctx: &Ctx, rep: &mut Report) {
    for k in ["location:errors-judged", "truncation:prefix-eof", "io-kind:judged"] {
        if rep.counters.get(k).copied().unwrap_or(0) == 0 {
            rep.inconclusive(format!("monitor observed no events of kind {}", k));
        }
    }
}

fn line_lengths(input: &[u8]) -> Vec<usize> {
    input.split(|b| *b == b'\n').map(|l| l.len()).collect()
}

fn judge_error(rep: &mut Report, input: &[u8], q: &Q, e: lexpr::parse::Error, src: &str, api: &str) {
    rep.eval();
    rep.count("location:errors-judged");
    let cat = e.classify();
    let kind = err_kind(&e);
    let replay = json!({"input_hex": hex(input), "options_index": q.index(), "source": src, "api": api});
    match cat {
        Category::Syntax | Category::Eof => {
            let lens = line_lengths(input);
            match e.location() {
                None => {
                    rep.violation("location", format!("C19:no-location:{}", kind), format!("{} {} on {:?}: {} error without a location", src, api, show(input), kind), replay.clone());
                }
                Some(loc) => {
                    let nlines = lens.len();
                    let line_ok = loc.line() >= 1 && loc.line() <= nlines + 1;
                    let col_ok = if line_ok {
                        let len = if loc.line() <= nlines { lens[loc.line() - 1] } else { 0 };
                        loc.column() <= len + 1
                    } else {
                        false
                    };
                    rep.max("max_error_line", loc.line() as u64);
                    if !line_ok || !col_ok {
                        rep.violation(
                            "location",
                            format!("C19:location-out-of-bounds:{}:{}", src, if line_ok { "column" } else { "line" }),
                            format!("{} {} on {:?} with {}: error '{}' reports line {} column {} but the input has {} line(s) with lengths {:?}", src, api, show(input), q.describe(), kind, loc.line(), loc.column(), nlines, &lens[..lens.len().min(8)]),
                            replay.clone(),
                        );
                    }
                }
            }
        }
        Category::Io => {}
    }
    // documented io::ErrorKind mapping
    rep.count("io-kind:judged");
    let ioe: std::io::Error = e.into();
    let want = match cat {
        Category::Syntax => std::io::ErrorKind::InvalidData,
        Category::Eof => std::io::ErrorKind::UnexpectedEof,
        Category::Io => std::io::ErrorKind::ConnectionReset,
    };
    if ioe.kind() != want {
        rep.violation("io-kind", format!("C19:io-kind:{:?}->{:?}", cat, ioe.kind()), format!("{:?} error '{}' converts to io::ErrorKind::{:?}, documented {:?}", cat, kind, ioe.kind(), want), replay);
    }
}

fn location_case(rep: &mut Report, input: &[u8], q: &Q, rng: &mut Rng) {
    let o = q.to_lexpr();
    let base = hash2(hash_bytes(input), q.index() as u64);
    let mut n = 0u64;
    let mut run = |rep: &mut Report, src: &str, api: &str, r: Result<(), lexpr::parse::Error>| {
        n += 1;
        rep.distinct(hash2(base, n));
        if let Err(e) = r {
            judge_error(rep, input, q, e, src, api);
        }
    };
    run(rep, "slice", "value", lexpr::from_slice_custom(input, o).map(|_| ()));
    run(rep, "slice", "datum", lexpr::datum::from_slice_custom(input, o).map(|_| ()));
    run(rep, "stream", "value", lexpr::from_reader_custom(ChunkReader::new(input, Chunking::Random, true, rng.fork()), o).map(|_| ()));
    run(rep, "stream", "datum", lexpr::datum::from_reader_custom(input, o).map(|_| ()));
    if let Ok(s) = std::str::from_utf8(input) {
        run(rep, "str", "value", lexpr::from_str_custom(s, o).map(|_| ()));
        run(rep, "str", "datum", lexpr::datum::from_str_custom(s, o).map(|_| ()));
    }
    // multi-item iteration: the first error of a sequence
    let mut p = lexpr::Parser::from_slice_custom(input, o);
    for _ in 0..200 {
        match p.next_value() {
            Ok(Some(_)) => continue,
            Ok(None) => break,
            Err(e) => {
                judge_error(rep, input, q, e, "slice", "next_value-sequence");
                break;
            }
        }
    }
    // an injected I/O error converts back to the original error, whatever its kind;
    // and a stream failure is never reported under another category (unless the
    // delivered bytes had already determined the outcome, which is then the
    // outcome of the whole input)
    if !input.is_empty() {
        let k = rng.below(input.len());
        let kind = *rng.pick(crate::mon::io::FAULT_KINDS);
        let fr = FaultReader::with_kind(input, k, kind);
        let errs = fr.errors_returned.clone();
        if let Err(e) = lexpr::from_reader_custom(fr, o) {
            rep.eval();
            if e.classify() == Category::Io {
                rep.count("io-kind:judged");
                let ioe: std::io::Error = e.into();
                if ioe.kind() != kind || !ioe.to_string().contains(MARKER) {
                    rep.violation("io-kind", "C19:io-kind:original-error-lost".into(), format!("Io-category error converts to {:?}, not the original error of kind {:?}", ioe, kind), json!({"input_hex": hex(input), "offset": k}));
                }
            } else if errs.get() > 0 {
                let whole = lexpr::from_slice_custom(input, o).err().map(|w| (cat_name(&w), err_kind(&w)));
                if whole != Some((cat_name(&e), err_kind(&e))) {
                    rep.violation(
                        "io-kind",
                        format!("C19:io-failure-reported-as:{}", cat_name(&e)),
                        format!("stream failing with {:?} at byte {} of {:?}: the read error was returned to the parser, which reports '{}' ({} category) although the whole input gives {:?}", kind, k, show(input), e, cat_name(&e), whole),
                        json!({"input_hex": hex(input), "offset": k, "kind": format!("{:?}", kind)}),
                    );
                } else {
                    rep.count("io-kind:failure-after-outcome-determined");
                }
            }
        }
    }
}

/// Classify where a truncation point falls, from the token being cut.
fn site_class(prefix: &[u8], brackets_vector: bool) -> String {
    // inside a string?
    let mut in_str = false;
    let mut esc = false;
    let mut tok_start = 0usize;
    let mut in_comment = false;
    let mut clean: Vec<u8> = prefix.to_vec();
    // innermost open construct: true = a list (where a dot after an element is the pair separator)
    let mut stack: Vec<bool> = Vec::new();
    for (i, &b) in prefix.iter().enumerate() {
        if in_comment {
            clean[i] = b' ';
            if b == b'\n' {
                in_comment = false;
                tok_start = i + 1;
            }
            continue;
        }
        if !in_str && b == b';' && !(i >= 2 && &prefix[i - 2..i] == b"#\\") && !(i >= 1 && prefix[i - 1] == b'\\') {
            in_comment = true;
            clean[i] = b' ';
            continue;
        }
        if !in_str && b == b'"' && ((i >= 2 && &prefix[i - 2..i] == b"#\\") || (i >= 1 && (prefix[i - 1] == b'\\' || prefix[i - 1] == b'?'))) {
            // a character literal such as #\" or ?\" does not open a string
            continue;
        }
        if in_str {
            if esc {
                esc = false;
            } else if b == b'\\' {
                esc = true;
            } else if b == b'"' {
                in_str = false;
                tok_start = i + 1;
            }
        } else if b == b'"' {
            in_str = true;
            tok_start = i;
        } else if matches!(b, b' ' | b'\n' | b'\t' | b'\r' | 0x0C | b'(' | b')' | b'[' | b']') {
            // a bracket that is a character literal (#\( ?\( ?( ...) is not structure
            let is_char_lit = (i >= 2 && &prefix[i - 2..i] == b"#\\") || (i >= 2 && &prefix[i - 2..i] == b"?\\") || (i >= 1 && prefix[i - 1] == b'?' && (i < 2 || !prefix[i - 2].is_ascii_alphanumeric()));
            match b {
                _ if is_char_lit => {}
                b'(' => {
                    // #( and #u8( / #vu8( open vectors
                    let is_vec = i >= 1 && (prefix[i - 1] == b'#' || (i >= 2 && prefix[i - 1] == b'8' && prefix[i - 2] == b'u'));
                    // ... unless the '(' is a character literal #\(
                    stack.push(!is_vec);
                }
                b'[' => stack.push(!brackets_vector),
                b')' | b']' => {
                    stack.pop();
                }
                _ => {}
            }
            tok_start = i + 1;
        }
    }
    if in_comment {
        return "comment".into();
    }
    if in_str {
        return if esc { "string-escape".into() } else if prefix.last().map_or(false, |b| *b >= 0x80) { "string-utf8".into() } else { "string".into() };
    }
    let t = &prefix[tok_start..];
    if t.is_empty() {
        return "between-tokens".into();
    }
    if t.iter().any(|b| *b >= 0x80) && std::str::from_utf8(t).is_err() {
        return "truncated-utf8".into();
    }
    if t.starts_with(b"#\\") {
        return if t.len() == 2 { "char-start".into() } else { "char-name".into() };
    }
    if t.starts_with(b"?\\") {
        return "elisp-char-escape".into();
    }
    if t == b"?" {
        return "elisp-char-start".into();
    }
    if t[0] == b'#' {
        return match t.get(1) {
            None => "hash".into(),
            Some(c) if b"box d".contains(c) || *c == b'x' => {
                if t.len() == 2 {
                    "radix-prefix".into()
                } else if t.len() == 3 && (t[2] == b'+' || t[2] == b'-') {
                    "radix-sign".into()
                } else {
                    "radix-digits".into()
                }
            }
            Some(b'n') => "hash-nil".into(),
            Some(b'u') | Some(b'v') => "bytevector-prefix".into(),
            Some(b':') => "hash-keyword".into(),
            Some(_) => "hash-other".into(),
        };
    }
    let digits_start = if t[0] == b'+' || t[0] == b'-' { 1 } else { 0 };
    if t.len() > digits_start && t[digits_start].is_ascii_digit() {
        let last = *t.last().unwrap();
        if last == b'.' {
            return "decimal-point".into();
        }
        if last == b'e' || last == b'E' {
            return "exponent-marker".into();
        }
        if (last == b'+' || last == b'-') && t.len() >= 2 && (t[t.len() - 2] == b'e' || t[t.len() - 2] == b'E') {
            return "exponent-sign".into();
        }
        return "number".into();
    }
    if t == b"." {
        // after a list element (the pair-separator position), after an opener, or elsewhere
        let before: Vec<u8> = clean[..tok_start].iter().rev().copied().skip_while(|b| matches!(b, b' ' | b'\n' | b'\t' | b'\r' | 0x0C)).take(1).collect();
        // a dot right after the pair-separator dot is the start of the tail datum
        let trimmed: Vec<u8> = clean[..tok_start].iter().rev().copied().skip_while(|b| matches!(b, b' ' | b'\n' | b'\t' | b'\r' | 0x0C)).take(2).collect();
        if trimmed.first() == Some(&b'.') && trimmed.get(1).map_or(true, |b| matches!(b, b' ' | b'\n' | b'\t' | b'\r' | 0x0C | b'(' | b'[' | b')' | b']' | b'"')) {
            return "dot-top-level".into();
        }
        return match before.first() {
            Some(b'(') | Some(b'[') => "dot".into(),
            Some(_) if stack.last() == Some(&true) => "dot-after-element".into(),
            _ => "dot-top-level".into(),
        };
    }
    if (t[0] == b'+' || t[0] == b'-') && t.len() == 2 && t[1] == b'.' {
        return "sign-dot".into();
    }
    if t == b"," {
        return "unquote".into();
    }
    "symbol-or-other".into()
}

/// One signature per defect: the lexer site is determined by the error kind
/// where that is unambiguous, by the cut token otherwise.
fn normalise_site(site: &str, kind: &str) -> String {
    match kind {
        "invalid symbol" => "lone-dot-at-end-of-input".into(),
        "invalid character constant" => "character-name-prefix".into(),
        "expected value" if site == "dot" => "dot-after-opener-at-end-of-input".into(),
        "invalid unicode code point" => match site {
            "char-name" | "elisp-char-escape" | "char-start" => "hex-character-prefix".into(),
            "string-escape" | "string" => "string-escape-prefix".into(),
            _ => "truncated-utf8-in-token".into(),
        },
        _ => site.to_string(),
    }
}

fn truncation_case(rep: &mut Report, text: &[u8], q: &Q, origin: &str) {
    let o = q.to_lexpr();
    // precondition: the whole text parses as a single datum
    if lexpr::from_slice_custom(text, o).is_err() {
        rep.count("truncation:text-not-accepted-under-options(skipped)");
        return;
    }
    rep.count("truncation:texts");
    rep.count(&format!("truncation:origin:{}", origin));
    let base = hash2(hash_bytes(text), q.index() as u64);
    for k in 0..text.len() {
        let p = &text[..k];
        let mut results: Vec<(&str, Option<lexpr::parse::Error>)> = vec![
            ("slice", lexpr::from_slice_custom(p, o).err()),
            ("stream", lexpr::from_reader_custom(p, o).err()),
            ("slice-datum", lexpr::datum::from_slice_custom(p, o).err()),
        ];
        if let Ok(s) = std::str::from_utf8(p) {
            results.push(("str", lexpr::from_str_custom(s, o).err()));
        }
        let n_variants = results.len();
        let mut failing: Vec<(&str, lexpr::parse::Error)> = Vec::new();
        for (i, (src, e)) in results.into_iter().enumerate() {
            rep.eval();
            rep.distinct(hash2(base, (k * 4 + i) as u64));
            match e {
                None => rep.count("truncation:prefix-parses"),
                Some(e) => {
                    if e.classify() == Category::Eof {
                        rep.count("truncation:prefix-eof");
                    } else {
                        failing.push((src, e));
                    }
                }
            }
        }
        if !failing.is_empty() {
            // which entry points misreport: all of them (one defect in shared code) or only some
            // (a discrepancy between the duplicated implementations)
            let which = if failing.len() == n_variants { "all-entry-points".to_string() } else { failing.iter().map(|(s, _)| *s).collect::<Vec<_>>().join("+") };
            let (src, e) = &failing[0];
            let site = normalise_site(&site_class(p, q.brackets_vector), &err_kind(e));
            let sig = if which == "all-entry-points" { format!("C19:prefix-not-eof:{}:{}", site, err_kind(e)) } else { format!("C19:prefix-not-eof:{}:{}:only={}", site, err_kind(e), which) };
            rep.violation(
                "truncation",
                sig,
                format!("{} of prefix {:?} (first {} of {} bytes of well-formed {:?}) with {}: category {:?} ('{}'), a streaming caller cannot tell 'more data needed' from 'malformed' [misreporting entry points: {}]", src, show(p), k, text.len(), show(text), q.describe(), e.classify(), e, which),
                json!({"text_hex": hex(text), "prefix_len": k, "options_index": q.index(), "source": src, "site": site, "entry_points": which}),
            );
        }
    }
}

pub const CORPUS_SCHEME: &[&str] = &[
    "#nil", "#t", "#f", "()", "foo", "foo-bar", "λx", "x中y", "...", "+", "-", "->x", "+.a", "-..", ".a", "a.b",
    "0", "42", "-17", "+5", "#x1F", "#xff", "#X1F", "#b101", "#o17", "#d10", "#x-1F", "#b+101", "18446744073709551615", "-9223372036854775808",
    "1.5", "-0.0", "1e3", "1E-3", "1.5e+10", "12.25e-7", "1e21", "5e-324", "123456789012345678901234567890", "100000000000000000000.0",
    "#\\a", "#\\x", "#\\x41", "#\\x3bb", "#\\space", "#\\newline", "#\\nul", "#\\alarm", "#\\backspace", "#\\tab", "#\\linefeed", "#\\vtab", "#\\page", "#\\return", "#\\esc", "#\\delete", "#\\λ", "#\\(", "#\\\"", "#\\;",
    "\"\"", "\"abc\"", "\"a b\"", "\"λ中𝒳\"", "\"\\n\\t\\r\\a\\b\\v\\f\\\\\\\"\\|\"", "\"\\x41;\"", "\"\\x3bb;x\"", "\"a\\x10FFFF;\"",
    "#u8()", "#u8(1 2 255)", "#vu8(0 #x10 #b11)", "#(1 a \"s\")", "#()", "#(#(1) #u8(2))",
    "(a b c)", "(a . b)", "(a b . c)", "(a (b (c)) . (d))", "[a b]", "(a [b . c])", "((a . 1) (b . 2))",
    "'a", "`a", ",a", ",@a", "'(a b)", "`(a ,b ,@c)", "''a", "'#(1)", "'\"s\"",
    "#:kw", "#:kw-λ", "(#:a 1 #:b 2)",
    "(1 2 3) ", " (1 2 3)", "(a ; comment\n b)", "(a\n  (b\n    c))", "; leading comment\nfoo",
];

pub const CORPUS_ELISP: &[&str] = &[
    "nil", "t", "foo", "foo-bar", ":kw", ":kw-λ", "λx", "1+", "1-", "12ab", "0x10",
    "0", "42", "-17", "+5", "1.5", "-0.0", "1e3", "1.5e+10", "#x1F", "#b101", "#o17",
    "?a", "?λ", "?\\(", "?\\)", "?\\\\", "?\\n", "?\\t", "?\\e", "?\\s", "?\\d", "?\\^a", "?\\^I", "?\\x41", "?\\x3bb", "?\\101", "?\\u00e9", "?\\U0001F600", "?\\N{U+3bb}",
    "\"\"", "\"abc\"", "\"λ中\"", "\"\\n\\t\\e\\d\\s\\\\\\\"\"", "\"\\x41\"", "\"\\101\\102\"", "\"\\u00e9x\"", "\"\\U0001F600\"", "\"\\N{U+3bb}\"", "\"a\\ b\"", "\"\\^a\"", "\"\\377\\001\"",
    "[1 2 3]", "[]", "[a [b] \"s\"]", "(a b c)", "(a . b)", "(a [b] . c)", "(:a 1 :b 2)", "'a", "`(a ,b ,@c)",
    "(setq x ?a) ", "(a ; c\n b)",
];

pub fn sets(ctx: &Ctx) -> Vec<CaseSet> {
    let tb = Arc::new(Tables::new());
    let mut cfg = GenCfg::default_dialect();
    cfg.max_depth = 3;
    cfg.max_items = 4;
    cfg.max_str = 8;
    let cfg = Arc::new(cfg);
    let mut out = Vec::new();

    // ---- location clause
    let (tb1, cfg1) = (tb.clone(), cfg.clone());
    out.push(CaseSet::new(
        "locations",
        ctx.size(300_000, 15_000_000),
        Box::new(move |rep, rng, _| {
            let (input, q, tag) = crate::props::c06::gen_input(rng, &tb1, &cfg1, 400);
            // make many inputs multi-line
            let input = if rng.chance(1, 3) {
                let mut b = Vec::new();
                for _ in 0..rng.range(1, 4) {
                    b.extend(text::token_soup(rng, 4));
                    b.push(b'\n');
                }
                b.extend(input);
                b
            } else {
                input
            };
            rep.count(&format!("location-inputs:{}", tag));
            location_case(rep, &input, &q, rng);
        }),
    ));

    // ---- errors far from the origin: line numbers and columns beyond 8 and 16 bits
    out.push(CaseSet::new(
        "far-error-locations",
        28,
        Box::new(move |rep, rng, case| {
            let ks = [255usize, 256, 257, 65_535, 65_536, 65_537, 70_000];
            let k = ks[(case as usize) % ks.len()];
            let prefix: String = match (case as usize) / ks.len() {
                0 => "\n".repeat(k),
                1 => " ".repeat(k),
                2 => format!(";{}\n", "c".repeat(k)),
                _ => format!("\"{}\"\n\n", "é".repeat(k / 2)),
            };
            for bad in [")", "(a . )", "#\\spa", "\"\\q\"", "(1 2", "#<", "1e999999999", "\"abc"] {
                let input = format!("{}{}", prefix, bad);
                for q in [Q::default_(), Q::elisp()] {
                    location_case(rep, input.as_bytes(), &q, rng);
                }
            }
            rep.max("max_prefix_before_error", k as u64);
        }),
    ));

    // ---- truncation clause: fixed corpus x {dialect options, sampled options}
    let n_s = CORPUS_SCHEME.len() as u64;
    let n_e = CORPUS_ELISP.len() as u64;
    let extra_q = ctx.size(16, 200);
    out.push(CaseSet::new(
        "truncation-corpus",
        (n_s + n_e) * (1 + extra_q),
        Box::new(move |rep, rng, case| {
            let idx = case % (n_s + n_e);
            let round = case / (n_s + n_e);
            let (text, base_q) = if idx < n_s { (CORPUS_SCHEME[idx as usize], Q::default_()) } else { (CORPUS_ELISP[(idx - n_s) as usize], Q::elisp()) };
            let q = if round == 0 { base_q } else { Q::from_index(rng.below(N_Q)) };
            truncation_case(rep, text.as_bytes(), &q, "corpus");
            sample_if_room(rep, || json!({"clause": "truncation", "text": text, "prefixes": text.len(), "options": q.describe()}));
        }),
    ));

    // ---- truncation clause: generated well-formed texts
    let (tb2, cfg2) = (tb.clone(), cfg.clone());
    out.push(CaseSet::new(
        "truncation-generated",
        ctx.size(30_000, 3_000_000),
        Box::new(move |rep, rng, _| {
            let v = gen::gen_value(rng, &cfg2, &tb2, 1);
            match rng.below(4) {
                0 => truncation_case(rep, lexpr::to_string(&v).unwrap().as_bytes(), &Q::default_(), "printer-default"),
                1 => {
                    let t = lexpr::to_string_custom(&v, lexpr::print::Options::elisp()).unwrap();
                    truncation_case(rep, t.as_bytes(), &Q::elisp(), "printer-elisp")
                }
                2 => {
                    let lc = LayoutCfg { lang: Lang::Scheme, trivia: TriviaSet::Basic, alt_spellings: true, brackets_as_list: true };
                    let t = text::layout(rng, &lc, &v);
                    truncation_case(rep, t.as_bytes(), &Q::default_(), "layout-scheme")
                }
                _ => {
                    let mut c = (*cfg2).clone();
                    c.allow_nil = false;
                    let v = gen::gen_value(rng, &c, &tb2, 1);
                    let lc = LayoutCfg { lang: Lang::Elisp, trivia: TriviaSet::Basic, alt_spellings: true, brackets_as_list: false };
                    let t = text::layout(rng, &lc, &v);
                    truncation_case(rep, t.as_bytes(), &Q::elisp(), "layout-elisp")
                }
            }
        }),
    ));
    out
}
