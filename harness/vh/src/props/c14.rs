//! C14 -- serialization produces the documented S-expression shapes; the
//! documented alternative encodings are accepted, improper lists and wrong
//! kinds in those positions are rejected with a data error.

use crate::fam::{family, render_alt, AltKind, Fam, G};
use crate::model::cmp::{veq, FloatRule};
use crate::mon::panics;
use crate::props::common::dbg_value;
use crate::props::PropDef;
use crate::report::Report;
use crate::rng::{hash2, hash_str, Rng};
use crate::run::{CaseSet, Ctx};
use lexpr::Value;
use serde_json::json;
use serde_lexpr::error::Category;

pub fn def() -> PropDef {
    PropDef {
        id: "C14",
        level: "exploration",
        rule: "cases = (type T of the C04 family, value x of T): to_value(x) compared structurally with the shape function written per type from the crate documentation (sequences/sets as proper lists, tuples/tuple structs as vectors, maps/structs as alists with symbol field names, None=() Some(x)=(x), unit=(), newtype struct = content, unit variant = symbol, newtype variant = (name . payload), tuple variant = (name item...), struct variant = (name (field . value)...), byte buffers as byte vectors, chars as characters, integers by mathematical value); plus, for every Seq/Tuple position of the shape (sampled), the alternative encoding (vector for sequence / proper list for tuple: must deserialize to x) and two corruptions (improper list -- foreign tail, the last item as tail, byte-vector or vector tail --, wrong kind -- atoms of every kind, or a look-alike: the items as a byte vector or string, empty byte vector: must fail with a data-category error, no panic). non-trivial = one shape comparison or one alternative/corrupted encoding judged; distinct = hash of (type, encoded value)",
        assumptions: &["the hand-written shape functions transcribe the documentation correctly"],
        nofast_too: false,
        min_quick: 100_000,
        min_thorough: 4_000_000,
        sets,
        post: Some(post),
    }
}

fn post(_ctx: &Ctx, rep: &mut Report) {
    for k in ["alt:accepted", "alt:improper-rejected", "alt:wrong-kind-rejected", "shape:equal"] {
        if rep.counters.get(k).copied().unwrap_or(0) == 0 {
            rep.inconclusive(format!("monitor observed no events of kind {}", k));
        }
    }
}

fn tname<T>() -> String {
    std::any::type_name::<T>().replace("alloc::string::", "").replace("alloc::vec::", "").replace("alloc::collections::btree::map::", "").replace("alloc::collections::btree::set::", "").replace("core::option::", "").replace("vh::fam::", "").replace("serde_bytes::bytebuf::", "").replace("alloc::boxed::", "")
}

pub fn run<T: Fam>(rep: &mut Report, rng: &mut Rng) {
    let name = tname::<T>();
    let x = T::gen(rng, G { finite: false, depth: 0 });
    let mut shape = x.shape();
    let want = shape.canonical();
    rep.eval();
    let got = match panics::guarded(|| serde_lexpr::to_value(&x)) {
        Ok(Ok(v)) => v,
        Ok(Err(e)) => {
            rep.violation("shape", format!("C14:to_value-error:{}", name), format!("to_value({:?}) failed: {}", x, e), json!({"type": name}));
            return;
        }
        Err(p) => {
            if p.in_library() {
                rep.violation("shape", format!("C14:panic:{}", p.sig()), p.short(), json!({"type": name}));
            } else {
                rep.inconclusive(format!("harness panic: {}", p.short()));
            }
            return;
        }
    };
    rep.distinct(hash2(hash_str(&name), hash_str(&format!("{:?}", got))));
    if let Err(d) = veq(&want, &got, FloatRule::Bits) {
        rep.violation("shape", format!("C14:shape-differs:{}", name), format!("{}: documented shape {} but serialized as {}: {}", name, dbg_value(&want), dbg_value(&got), d), json!({"type": name}));
        return;
    }
    rep.count("shape:equal");
    if rep.want_sample() {
        rep.sample(json!({"type": name, "documented_shape": dbg_value(&want)}));
    }
    // alternative and corrupted encodings at Seq/Tuple positions
    let n = shape.count_seq_tuple();
    if n == 0 {
        return;
    }
    let wrongs = [Value::string("wrong"), Value::symbol("wrong"), Value::from(7u64), Value::Bool(true), Value::Char('w'), Value::keyword("wrong"), Value::Nil];
    for _ in 0..n.min(4) {
        let k = rng.below(n);
        for alt in [AltKind::Accept, AltKind::ImproperReject, AltKind::WrongKindReject] {
            let wrong = rng.pick(&wrongs).clone();
            let variant = rng.below(4);
            let v = match render_alt(&shape, k, alt, &wrong, variant) {
                Some(v) => v,
                None => continue,
            };
            if alt == AltKind::Accept && veq(&v, &want, FloatRule::Bits).is_ok() {
                // e.g. an empty sequence: () either way -- nothing alternative about it
                continue;
            }
            rep.eval();
            rep.distinct(hash2(hash_str(&name), hash_str(&format!("{:?}{:?}", alt, v))));
            let r = panics::guarded(|| serde_lexpr::from_value::<T>(&v));
            let replay = json!({"type": name, "encoding": dbg_value(&v), "alt": format!("{:?}", alt), "position": k});
            match (alt, r) {
                (_, Err(p)) => {
                    if p.in_library() {
                        rep.violation("alt", format!("C14:panic:{}", p.sig()), format!("from_value::<{}>({}) panicked: {}", name, dbg_value(&v), p.short()), replay);
                    } else {
                        rep.inconclusive(format!("harness panic: {}", p.short()));
                    }
                    return;
                }
                (AltKind::Accept, Ok(Ok(y))) => {
                    if x.same(&y, false) {
                        rep.count("alt:accepted");
                    } else {
                        rep.violation("alt", format!("C14:alternative-misread:{}", name), format!("{}: alternative encoding {} of {:?} deserialized to {:?}", name, dbg_value(&v), x, y), replay);
                        return;
                    }
                }
                (AltKind::Accept, Ok(Err(e))) => {
                    let what = if matches!(v, Value::Null) || format!("{:?}", v).contains("Null") && n == 1 { "empty-list-for-empty-tuple" } else { "general" };
                    rep.violation("alt", format!("C14:alternative-rejected:{}:{}", what, name), format!("{}: documented alternative encoding {} (canonical {}) rejected: {}", name, dbg_value(&v), dbg_value(&want), e), replay);
                    return;
                }
                (_, Ok(Ok(y))) => {
                    rep.violation("alt", format!("C14:{:?}-accepted:{}", alt, name), format!("{}: corrupted encoding {} accepted as {:?}", name, dbg_value(&v), y), replay);
                    return;
                }
                (_, Ok(Err(e))) => {
                    if e.classify() == Category::Data {
                        rep.count(if alt == AltKind::ImproperReject { "alt:improper-rejected" } else { "alt:wrong-kind-rejected" });
                    } else {
                        rep.violation("alt", format!("C14:reject-category:{:?}", e.classify()), format!("{}: corrupted encoding {} rejected with category {:?}, not Data: {}", name, dbg_value(&v), e.classify(), e), replay);
                        return;
                    }
                }
            }
        }
    }
    rep.count(&format!("type:{}", name));
}

pub fn sets(ctx: &Ctx) -> Vec<CaseSet> {
    let fam = family();
    let n = fam.len() as u64;
    let per = ctx.size(6_000, 180_000);
    vec![CaseSet::new(
        "documented-shapes-and-alternatives",
        n * per,
        Box::new(move |rep, rng, case| {
            let e = &fam[(case % n) as usize];
            (e.c14)(rep, rng);
        }),
    )]
}
