//! C12 -- datum sequences: concatenation, trivia insensitivity, terminating iteration.

use crate::gen::text::{self, Lang, LayoutCfg, TriviaSet};
use crate::gen::{self, GenCfg, NameCtx, Tables};
use crate::model::cmp::{fold, veq, FloatRule};
use crate::mon::panics;
use crate::opts::{P, Q, N_Q};
use crate::props::common::*;
use crate::props::PropDef;
use crate::report::{hex, show, show_str, Report};
use crate::rng::{hash2, hash_bytes, hash_str, Rng};
use crate::run::{CaseSet, Ctx};
use lexpr::parse::Read;
use lexpr::{Parser, Value};
use serde_json::json;
use std::sync::Arc;

pub fn def() -> PropDef {
    PropDef {
        id: "C12",
        level: "exploration",
        rule: "(a) cases = (sequence of 0-20 values, dialect, trivia string drawn over {space, tab, CR, LF, FF, ';...\\n'} at every boundary incl. a final comment without newline, source, iteration style in {next_value loop, value_iter, datum_iter, Iterator for Parser}); (b) metamorphic pairs: one token sequence joined with two independent trivia draws must give the same values; (c) cases = (arbitrary finite input, options, call history on one parser: random interleavings of next_value/next_datum/expect_end/value_iter().next()/datum_iter().next()/Iterator::next continuing after errors, up to 2*len+16 calls) judged for bounded item count, fuel, and span progress of successful items. both feature builds. non-trivial = one iteration or history judged; distinct = hash of (text, options, style or history seed)",
        assumptions: &["trivia = the set named in the statement; one trivia piece is always present between two atoms, except next to a string literal, which is self-delimiting (removing all separation elsewhere is not 'changing trivia')", "an iterator that yields more than len+2 items for a len-byte input does not terminate"],
        nofast_too: true,
        min_quick: 200_000,
        min_thorough: 10_000_000,
        sets,
        post: None,
    }
}

#[derive(Debug, Clone)]
enum Term {
    End,
    Err(String),
    Runaway,
}

type Seq = (Vec<Value>, Term);

fn cap_for(len: usize) -> usize {
    len + 2
}

fn style_next_value<'a, R: Read<'a>>(mut p: Parser<R>, cap: usize) -> Seq {
    let mut out = Vec::new();
    loop {
        match p.next_value() {
            Ok(Some(v)) => out.push(v),
            Ok(None) => return (out, Term::End),
            Err(e) => return (out, Term::Err(err_kind(&e))),
        }
        if out.len() > cap {
            return (out, Term::Runaway);
        }
    }
}

fn style_value_iter<'a, R: Read<'a>>(mut p: Parser<R>, cap: usize) -> Seq {
    let mut out = Vec::new();
    let mut n = 0;
    for item in p.value_iter() {
        n += 1;
        match item {
            Ok(v) => out.push(v),
            Err(e) => return (out, Term::Err(err_kind(&e))),
        }
        if n > cap {
            return (out, Term::Runaway);
        }
    }
    (out, Term::End)
}

fn style_datum_iter<'a, R: Read<'a>>(mut p: Parser<R>, cap: usize) -> Seq {
    let mut out = Vec::new();
    let mut n = 0;
    for item in p.datum_iter() {
        n += 1;
        match item {
            Ok(d) => out.push(d.value().clone()),
            Err(e) => return (out, Term::Err(err_kind(&e))),
        }
        if n > cap {
            return (out, Term::Runaway);
        }
    }
    (out, Term::End)
}

fn style_iterator<'a, R: Read<'a>>(p: Parser<R>, cap: usize) -> Seq {
    let mut out = Vec::new();
    let mut n = 0;
    for item in p {
        n += 1;
        match item {
            Ok(v) => out.push(v),
            Err(e) => return (out, Term::Err(err_kind(&e))),
        }
        if n > cap {
            return (out, Term::Runaway);
        }
    }
    (out, Term::End)
}

/// Does the iterator keep yielding after its first error (unfused, endless)?
fn iterator_endless_after_error<'a, R: Read<'a>>(mut p: Parser<R>, cap: usize) -> Option<usize> {
    let mut n = 0usize;
    let mut errs = 0usize;
    while let Some(item) = p.next() {
        n += 1;
        if item.is_err() {
            errs += 1;
        }
        if n > cap {
            return Some(errs);
        }
    }
    None
}

fn seq_eq(a: &Seq, b: &Seq, rule: FloatRule) -> bool {
    a.0.len() == b.0.len()
        && a.0.iter().zip(&b.0).all(|(x, y)| veq(x, y, rule).is_ok())
        && match (&a.1, &b.1) {
            (Term::End, Term::End) => true,
            (Term::Err(x), Term::Err(y)) => x == y,
            (Term::Runaway, Term::Runaway) => true,
            _ => false,
        }
}

fn seq_brief(s: &Seq) -> String {
    format!("{} values then {:?}", s.0.len(), s.1)
}

fn all_styles(text: &[u8], q: &Q) -> Vec<(&'static str, Seq)> {
    let o = q.to_lexpr();
    let cap = cap_for(text.len());
    let mut v: Vec<(&'static str, Seq)> = vec![
        ("slice/next_value-loop", style_next_value(Parser::from_slice_custom(text, o), cap)),
        ("slice/value_iter", style_value_iter(Parser::from_slice_custom(text, o), cap)),
        ("slice/datum_iter", style_datum_iter(Parser::from_slice_custom(text, o), cap)),
        ("slice/Iterator", style_iterator(Parser::from_slice_custom(text, o), cap)),
        ("reader/next_value-loop", style_next_value(Parser::from_reader_custom(text, o), cap)),
        ("reader/value_iter", style_value_iter(Parser::from_reader_custom(text, o), cap)),
        ("reader/datum_iter", style_datum_iter(Parser::from_reader_custom(text, o), cap)),
        ("reader/Iterator", style_iterator(Parser::from_reader_custom(text, o), cap)),
    ];
    if let Ok(s) = std::str::from_utf8(text) {
        v.push(("str/next_value-loop", style_next_value(Parser::from_str_custom(s, o), cap)));
        v.push(("str/datum_iter", style_datum_iter(Parser::from_str_custom(s, o), cap)));
        v.push(("str/Iterator", style_iterator(Parser::from_str_custom(s, o), cap)));
    }
    v
}

fn trivia_kinds(text: &str) -> String {
    let mut k = String::new();
    for (c, n) in [(' ', "sp"), ('\t', "tab"), ('\r', "cr"), ('\n', "lf"), ('\x0C', "ff"), (';', "comment")] {
        if text.contains(c) {
            k.push_str(n);
            k.push('+');
        }
    }
    k
}

/// (a): sequences of printed values joined with trivia.
fn concat_case(rep: &mut Report, rng: &mut Rng, tb: &Tables, nofast: bool) {
    let elisp = rng.bool();
    let (p, q) = if elisp { (P::elisp(), Q::elisp()) } else { (P::default_(), Q::default_()) };
    let mut cfg = GenCfg::default_dialect();
    cfg.max_depth = 3;
    cfg.max_items = 4;
    cfg.name_ctx = NameCtx { colon_prefix_kw: elisp, colon_postfix_kw: false, elisp_chars: elisp, nil_special: elisp, t_special: false };
    let n = match rng.below(5) {
        0 => 0,
        1 => 1,
        _ => rng.range(0, 20),
    };
    let mut vals: Vec<Value> = (0..n).map(|_| gen::gen_value(rng, &cfg, tb, 1)).collect();
    if elisp && rng.chance(1, 3) {
        // under the Emacs options digit-initial tokens that are not numbers are symbols:
        // the printer writes such names verbatim and the reader must give them back
        const DIGIT_NAMES: &[&str] = &["1+", "1-", "1.", "7.", "12.e3", "1e", "1e+", "1.5.6", "1_000", "0x10", "1/2", "9z", "1.0e+INF", "0.0e+NaN", "2d", "1e3x"];
        for _ in 0..rng.range(1, 3) {
            let at = rng.below(vals.len() + 1);
            let name = *rng.pick::<&str>(DIGIT_NAMES);
            let sym = Value::symbol(name);
            vals.insert(at, if rng.bool() { sym } else { Value::list(vec![Value::symbol("a"), sym]) });
        }
    }
    let expected: Vec<Value> = vals.iter().map(|v| fold(v, &p, &q)).collect();
    let set = if rng.bool() { TriviaSet::WithFormFeed } else { TriviaSet::Basic };
    let mut text = String::new();
    text::trivia(rng, set, 0, &mut text);
    for v in vals.iter() {
        text.push_str(&lexpr::to_string_custom(v, p.to_lexpr()).unwrap());
        text::trivia(rng, set, 1, &mut text);
    }
    if rng.chance(1, 6) {
        text.push_str("; final comment without newline");
    }
    let rule = if nofast { FloatRule::Bits } else { FloatRule::RoundTripFast };
    let want: Seq = (expected, Term::End);
    rep.count(if elisp { "concat:elisp" } else { "concat:default" });
    rep.count(&format!("concat:trivia:{}", trivia_kinds(&text)));
    for (style, got) in all_styles(text.as_bytes(), &q) {
        rep.eval();
        rep.distinct(hash2(hash_str(&text), hash_str(style)));
        if !seq_eq(&want, &got, rule) {
            // narrow the signature: which trivia character sits at the first divergence?
            let first_bad = want.0.iter().zip(&got.0).position(|(a, b)| veq(a, b, rule).is_err()).unwrap_or(want.0.len().min(got.0.len()));
            let what = if matches!(got.1, Term::Runaway) {
                "runaway".to_string()
            } else if text.contains('\x0C') && seq_eq(&want, &reparse_without_ff(&text, &q), rule) {
                "form-feed".to_string()
            } else {
                format!("item{}:{}", if first_bad < want.0.len() { "-differs" } else { "-count" }, want.0.get(first_bad).map(leaf_class).unwrap_or_else(|| "end".into()))
            };
            rep.violation(
                "concat",
                format!("C12:concat:{}:{}", if elisp { "elisp" } else { "default" }, what),
                format!("{} over {:?}: expected {} got {} (first difference at item {})", style, show_str(&text), seq_brief(&want), seq_brief(&got), first_bad),
                json!({"text_hex": hex(text.as_bytes()), "options_index": q.index(), "style": style}),
            );
            return;
        }
    }
    sample_if_room(rep, || json!({"clause": "concatenation", "n_values": n, "text": show_str(&text)}));
}

/// The same text with every form feed replaced by a space, parsed (diagnosis only).
fn reparse_without_ff(text: &str, q: &Q) -> Seq {
    let t = text.replace('\x0C', " ");
    style_next_value(Parser::from_str_custom(&t, q.to_lexpr()), cap_for(t.len()))
}

/// (b): one token sequence, two trivia draws.
fn metamorphic_case(rep: &mut Report, rng: &mut Rng, tb: &Tables, nofast: bool) {
    let elisp = rng.bool();
    let q = if elisp { Q::elisp() } else { Q::default_() };
    let mut cfg = GenCfg::default_dialect();
    cfg.max_depth = 4;
    cfg.max_items = 5;
    cfg.allow_nil = !elisp;
    cfg.name_ctx = NameCtx { colon_prefix_kw: elisp, colon_postfix_kw: false, elisp_chars: elisp, nil_special: elisp, t_special: false };
    let lc = LayoutCfg { lang: if elisp { Lang::Elisp } else { Lang::Scheme }, trivia: if rng.bool() { TriviaSet::WithFormFeed } else { TriviaSet::Basic }, alt_spellings: true, brackets_as_list: !elisp };
    let n = rng.range(1, 4);
    let mut toks = Vec::new();
    for _ in 0..n {
        let v = if elisp { gen_no_bool(rng, &cfg, tb) } else { gen::gen_value(rng, &cfg, tb, 1) };
        text::tokens(rng, &lc, &v, &mut toks);
    }
    let minimal = text::join_minimal(&toks);
    let a = text::join(rng, lc.trivia, &toks, true);
    let b = text::join(rng, lc.trivia, &toks, true);
    let rule = FloatRule::Bits; // identical tokens must give identical values in any build
    let _ = nofast;
    let cap = cap_for(a.len().max(b.len()));
    let o = q.to_lexpr();
    let s0 = style_next_value(Parser::from_str_custom(&minimal, o), cap);
    for (name, t) in [("draw-A", &a), ("draw-B", &b)] {
        rep.eval();
        rep.distinct(hash_str(t));
        let s = style_next_value(Parser::from_str_custom(t, o), cap);
        let s2 = style_datum_iter(Parser::from_reader_custom(t.as_bytes(), o), cap);
        if !seq_eq(&s0, &s, rule) || !seq_eq(&s0, &s2, rule) {
            let ff = t.contains('\x0C') && seq_eq(&s0, &reparse_without_ff(t, &q), rule);
            rep.violation(
                "trivia-metamorphic",
                format!("C12:trivia-changes-values:{}:{}", if elisp { "elisp" } else { "default" }, if ff { "form-feed" } else { "other" }),
                format!("same tokens, different trivia: minimal layout {:?} reads as {}, but {} {:?} reads as {} / {}", show_str(&minimal), seq_brief(&s0), name, show_str(t), seq_brief(&s), seq_brief(&s2)),
                json!({"minimal_hex": hex(minimal.as_bytes()), "variant_hex": hex(t.as_bytes()), "options_index": q.index()}),
            );
            return;
        }
    }
    rep.count(&format!("metamorphic:trivia:{}", trivia_kinds(&a)));
    sample_if_room(rep, || json!({"clause": "trivia metamorphic", "minimal": show_str(&minimal), "variant": show_str(&a)}));
}

fn gen_no_bool(rng: &mut Rng, cfg: &GenCfg, tb: &Tables) -> Value {
    // for the Emacs layout: values without Bool/Nil (they have no token spelling there)
    let v = gen::gen_value(rng, cfg, tb, 1);
    crate::model::cmp::map_atoms(&v, &|a| match a {
        Value::Bool(_) | Value::Nil => Value::symbol("b"),
        o => o.clone(),
    })
}

fn pos_key(p: lexpr::parse::Position) -> (usize, usize) {
    (p.line(), p.column())
}

/// (c): iteration over arbitrary input terminates; histories on one parser.
fn termination_case(rep: &mut Report, rng: &mut Rng, input: &[u8], q: &Q, tag: &str) {
    let o = q.to_lexpr();
    let cap = cap_for(input.len());
    let base = hash2(hash_bytes(input), q.index() as u64);
    let replay = json!({"input_hex": hex(input), "options_index": q.index(), "generator": tag});
    // the four styles terminate and agree
    let styles = {
        crate::hooks::set_fuel(64 * 12 * (input.len() as u64 + 2) * 4 + 65536);
        let r = panics::guarded(|| all_styles(input, q));
        crate::hooks::set_fuel(u64::MAX);
        match r {
            Ok(s) => s,
            Err(p) => {
                if p.message.starts_with("lexpr_verif:fuel") {
                    rep.violation("termination", "C12:iteration-fuel-exhausted".into(), format!("iterating {:?} with {} exceeded the step budget", show(input), q.describe()), replay);
                } else if p.in_library() {
                    rep.violation("termination", format!("C12:panic:{}", p.sig()), format!("iterating {:?}: {}", show(input), p.short()), replay);
                } else {
                    rep.inconclusive(format!("harness panic: {}", p.short()));
                }
                return;
            }
        }
    };
    let first = styles[0].1.clone();
    for (name, s) in styles.iter() {
        rep.eval();
        rep.distinct(hash2(base, hash_str(name)));
        if matches!(s.1, Term::Runaway) {
            rep.violation("termination", format!("C12:runaway-successes:{}", name.split('/').nth(1).unwrap_or("")), format!("{} over {:?} ({} bytes) yielded more than {} successful items", name, show(input), input.len(), cap), replay.clone());
            return;
        }
        if !seq_eq(&first, s, FloatRule::Bits) {
            rep.violation("styles-agree", format!("C12:styles-disagree:{}", name.split('/').nth(1).unwrap_or("")), format!("{} gives {} but {} gives {} on {:?} with {}", styles[0].0, seq_brief(&first), name, seq_brief(s), show(input), q.describe()), replay.clone());
            return;
        }
    }
    match &first.1 {
        Term::End => rep.count("termination:ended-normally"),
        Term::Err(k) => {
            rep.count("termination:ended-with-error");
            rep.count(&format!("termination:error:{}", k));
        }
        Term::Runaway => {}
    }
    // an iterator must not yield forever after an error
    rep.eval();
    let endless = iterator_endless_after_error(Parser::from_slice_custom(input, o), 2 * cap + 16);
    if let Some(errs) = endless {
        rep.violation(
            "termination",
            "C12:iterator-never-ends-after-error".into(),
            format!("`for item in Parser` over {:?} ({} bytes) with {} yielded more than {} items ({} of them errors): iteration over a finite input does not terminate", show(input), input.len(), q.describe(), 2 * cap + 16, errs),
            replay.clone(),
        );
        return;
    }
    // the adaptors, polled again and again after an error, must not yield forever either
    for style in ["value_iter", "datum_iter"] {
        rep.eval();
        let mut p = Parser::from_slice_custom(input, o);
        let mut items = 0usize;
        let mut ended = false;
        for _ in 0..(2 * cap + 16) {
            let r = if style == "value_iter" { p.value_iter().next().map(|r| r.map(|_| ())) } else { p.datum_iter().next().map(|r| r.map(|_| ())) };
            match r {
                Some(_) => items += 1,
                None => {
                    ended = true;
                    break;
                }
            }
        }
        if !ended {
            rep.violation("termination", format!("C12:adaptor-never-ends:{}", style), format!("{}().next() polled {} times over {:?} ({} bytes) with {} never returned None ({} items)", style, 2 * cap + 16, show(input), input.len(), q.describe(), items), replay.clone());
            return;
        }
    }
    // each successful item consumes input (datum spans: non-empty, ordered)
    {
        let mut p = Parser::from_slice_custom(input, o);
        let mut prev_end: Option<(usize, usize)> = None;
        let mut k = 0;
        for item in p.datum_iter() {
            k += 1;
            if k > cap {
                break;
            }
            match item {
                Ok(d) => {
                    rep.eval();
                    let sp = d.span();
                    let (s, e) = (pos_key(sp.start()), pos_key(sp.end()));
                    if e <= s || prev_end.map_or(false, |pe| s < pe) {
                        rep.violation("progress", "C12:item-without-progress".into(), format!("datum #{} of {:?} has span {:?}..{:?} (previous item ended at {:?}): no input consumed", k, show(input), s, e, prev_end), replay.clone());
                        return;
                    }
                    prev_end = Some(e);
                }
                Err(_) => break,
            }
        }
    }
    // call histories on one parser, continuing after errors
    let calls = 2 * input.len() + 16;
    let mut successes = 0usize;
    let mut p = Parser::from_slice_custom(input, o);
    let mut hist = String::new();
    crate::hooks::set_fuel(64 * (input.len() as u64 + 2) * (calls as u64 + 1) + 65536);
    let r = panics::guarded(|| {
        for _ in 0..calls {
            let which = rng.below(6);
            #[allow(deprecated)]
            let got_item = match which {
                0 => matches!(p.next_value(), Ok(Some(_))),
                1 => matches!(p.next_datum(), Ok(Some(_))),
                2 => {
                    let _ = p.expect_end();
                    false
                }
                3 => matches!(p.value_iter().next(), Some(Ok(_))),
                4 => matches!(p.datum_iter().next(), Some(Ok(_))),
                _ => matches!(Iterator::next(&mut p), Some(Ok(_))),
            };
            hist.push(char::from(b'0' + which as u8));
            if got_item {
                successes += 1;
            }
        }
    });
    crate::hooks::set_fuel(u64::MAX);
    rep.eval();
    rep.max("max_history_calls", calls as u64);
    match r {
        Err(pn) => {
            if pn.message.starts_with("lexpr_verif:fuel") {
                rep.violation("termination", "C12:history-fuel-exhausted".into(), format!("call history {} on {:?} exceeded the step budget", hist, show(input)), replay);
            } else if pn.in_library() {
                rep.violation("termination", format!("C12:history-panic:{}", pn.sig()), format!("call history {} on {:?}: {}", hist, show(input), pn.short()), replay);
            } else {
                rep.inconclusive(format!("harness panic: {}", pn.short()));
            }
        }
        Ok(()) => {
            if successes > input.len() + 1 {
                rep.violation("termination", "C12:history-too-many-items".into(), format!("{} successful items from a {}-byte input over call history {}", successes, input.len(), hist), replay);
            }
        }
    }
}

pub fn sets(ctx: &Ctx) -> Vec<CaseSet> {
    let tb = Arc::new(Tables::new());
    let nofast = ctx.nofast;
    let mut out = Vec::new();
    let tb1 = tb.clone();
    out.push(CaseSet::new("concatenation", ctx.size(32_000, 2_000_000), Box::new(move |rep, rng, _| concat_case(rep, rng, &tb1, nofast))));
    let tb2 = tb.clone();
    out.push(CaseSet::new("trivia-metamorphic", ctx.size(40_000, 2_400_000), Box::new(move |rep, rng, _| metamorphic_case(rep, rng, &tb2, nofast))));
    let tb3 = tb.clone();
    let mut cfg = GenCfg::default_dialect();
    cfg.max_depth = 3;
    let cfg = Arc::new(cfg);
    out.push(CaseSet::new(
        "termination-and-histories",
        ctx.size(40_000, 2_400_000),
        Box::new(move |rep, rng, _| {
            let (input, q, tag) = crate::props::c06::gen_input(rng, &tb3, &cfg, 300);
            let q = if rng.chance(1, 3) { Q::from_index(rng.below(N_Q)) } else { q };
            rep.count(&format!("termination-inputs:{}", tag));
            termination_case(rep, rng, &input, &q, tag);
        }),
    ));
    // a fixed set of classic stuck inputs
    out.push(CaseSet::new(
        "stuck-inputs",
        1,
        Box::new(move |rep, rng, _| {
            for inp in [&b")"[..], b"]", b"a)", b"(a))", b"#", b"#<", b"\"", b"\\", b"|", b"{", b"}", b"a . b", b" . ", b"#u8(300)", b"1 2 ) 3", b"\xff", b"a\xffb c", b"#\\", b"'", b",@", b"'')"] {
                for q in [Q::default_(), Q::elisp(), Q::all_on()] {
                    termination_case(rep, rng, inp, &q, "stuck-corpus");
                }
            }
        }),
    ));
    // long flat streams read item by item in child processes with a 2 MiB stack (both the
    // optimised monitoring build and the dev build): the number of items must be exact
    // and the process must not die, however many trivia lines or items there are
    let reps: usize = if ctx.thorough { 1_000_000 } else { 200_000 };
    out.push(CaseSet::new(
        "long-flat-streams-children",
        crate::props::c03::FLAT_UNITS.len() as u64,
        Box::new(move |rep, _rng, case| {
            use crate::mon::child::{self, Exit};
            let (name, unit) = crate::props::c03::FLAT_UNITS[case as usize];
            // datums per unit
            let per_unit: u64 = match name {
                "comment-lines" | "empty-comment-lines" | "blank-lines" | "spaces" | "crlf-tab" | "form-feeds" => 0,
                "quoted" => 1,
                _ => 1,
            };
            let _ = unit;
            let me = std::env::current_exe().unwrap().to_string_lossy().to_string();
            let mut bins = vec![("mon", me)];
            if let Ok(d) = std::env::var("VH_DEV_BIN") {
                if !d.is_empty() {
                    bins.push(("dev", d));
                }
            }
            for (label, bin) in bins {
                for (api, src) in [("value", "str"), ("value", "reader"), ("datum", "reader")] {
                    let args: Vec<String> = vec!["child".into(), "c03-flat".into(), case.to_string(), reps.to_string(), "top-level".into(), api.into(), src.into()];
                    let r = child::run(&bin, &args, std::time::Duration::from_secs(600));
                    rep.eval();
                    rep.distinct(hash2(hash_str(name), hash2(hash_str(label), hash2(hash_str(api), hash_str(src)))));
                    let expected = per_unit * reps as u64 + 1; // + the final `end`
                    match &r.exit {
                        Exit::Code(0) => {
                            let want = format!("RESULT items={} errors=0", expected);
                            if r.stdout.contains(&want) {
                                rep.count("long-stream:exact-item-count");
                            } else {
                                rep.violation(
                                    "long-stream",
                                    format!("C12:long-stream-item-count:{}", name),
                                    format!("{} x {} then `end` read item by item ({} api, {} source, {} build): expected {} items and no error, child reports {:?}", name, reps, api, src, label, expected, r.stdout.trim()),
                                    json!({"unit": name, "api": api, "src": src, "build": label, "reps": reps}),
                                );
                                return;
                            }
                        }
                        _ if r.stack_overflow() => {
                            rep.violation(
                                "long-stream",
                                format!("C12:long-stream-stack-overflow:{}", name),
                                format!("{} x {} then `end` read item by item ({} api, {} source, {} build, 2 MiB thread): the process died of stack overflow ({:?})", name, reps, api, src, label, r.exit),
                                json!({"unit": name, "api": api, "src": src, "build": label, "reps": reps}),
                            );
                            return;
                        }
                        Exit::Timeout => rep.inconclusive(format!("child watchdog fired for long stream {} {} {}", name, api, src)),
                        other => rep.inconclusive(format!("long-stream child {} {} {} ended unexpectedly: {:?} {}", name, api, src, other, r.stderr_tail)),
                    }
                }
            }
        }),
    ));
    out
}
