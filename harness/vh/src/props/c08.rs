//! C08 -- each parser option changes exactly the tokens it is documented to govern.
//!
//! (a) a declarative token classifier written from the option documentation;
//! (b) a metamorphic check that is independent of (a): option sets that differ
//!     only in options the input does not exercise must give identical results.

use crate::model::num;
use crate::model::reader::is_r7rs_identifier;
use crate::opts::{QNil, Syn, KW_OCTO, KW_POSTFIX, KW_PREFIX, N_Q, Q};
use crate::props::common::*;
use crate::props::PropDef;
use crate::report::{show_str, Report};
use crate::rng::{hash2, hash_str};
use crate::run::{CaseSet, Ctx};
use lexpr::Value;
use serde_json::json;
use std::collections::HashMap;

pub fn def() -> PropDef {
    PropDef {
        id: "C08",
        level: "exploration",
        rule: "cases = (token, syntactic context, parser option set): a corpus of ~190 tokens covering every token class with its near misses (digit-initial: 1+ 1- 1/2 1.5.6 0x10 12ab 1e3 1e 1. ; keywords :a a: :a: :: : λ: $a: #:a ; nil nil: nilx NIL t tt ; brackets; ?a ?\\( ; #%a #% ; peculiar identifiers; radix forms; quote shorthands) x 12 contexts (top level, list head/middle/last, dotted tail in parentheses and in brackets, vector element, bracket element, directly before ')' , ']' , ';' and end of input) x ALL 1536 parser option sets (exhaustive over configurations). non-trivial = one (token, context, options) reading compared with the classifier, or one group of option sets compared for non-interference; distinct = hash of (input, options)",
        assumptions: &[
            "the classifier returns Unspecified wherever the documentation is silent (no demand)",
            "the 'exercises' relation over-approximates (it can only remove demands): an option counts as exercised as soon as its trigger characters appear at a token boundary",
        ],
        nofast_too: false,
        min_quick: 1_000_000,
        min_thorough: 1_000_000,
        sets,
        post: None,
    }
}

#[derive(Clone, Debug)]
enum Exp {
    Is(Value),
    /// a float literal: accuracy rule against the correctly rounded value
    IsFloat(num::Expect),
    MustError,
    /// not a numeric literal as a whole: must not be read as a number (nor split)
    MustNotBeNumber,
    Unspecified,
}

fn simple_name(s: &str) -> bool {
    !s.is_empty() && s.chars().all(|c| c.is_ascii_alphanumeric() || c == '-' || (c as u32) > 127)
}

fn number_exp(tok: &str) -> Option<Exp> {
    let l = num::scan_literal(tok.as_bytes())?;
    Some(match num::expect(&l, false) {
        num::Expect::Int(v) => Exp::Is(Value::Number(crate::gen::int_to_number(v))),
        other => Exp::IsFloat(other),
    })
}

fn colon_rules(tok: &str, q: &Q) -> Exp {
    let n = tok.len();
    if tok == ":" || tok == "::" {
        return Exp::Unspecified;
    }
    let lead = tok.starts_with(':') && n > 1;
    let trail = tok.ends_with(':') && n > 1;
    // a lone dot is not a name (`.` by itself is not a symbol either): the
    // documentation does not say what `.:` / `:.` / `:.:` denote
    if (lead && &tok[1..] == ".") || (trail && &tok[..n - 1] == ".") || tok == ":.:" {
        return Exp::Unspecified;
    }
    let pre = q.kw & KW_PREFIX != 0;
    let post = q.kw & KW_POSTFIX != 0;
    if lead && trail {
        return match (pre, post) {
            (true, true) => Exp::Unspecified,
            (true, false) => Exp::Is(Value::keyword(&tok[1..])),
            (false, true) => Exp::Is(Value::keyword(&tok[..n - 1])),
            (false, false) => Exp::Is(Value::symbol(tok)),
        };
    }
    if lead {
        return if pre { Exp::Is(Value::keyword(&tok[1..])) } else { Exp::Is(Value::symbol(tok)) };
    }
    if trail {
        return if post { Exp::Is(Value::keyword(&tok[..n - 1])) } else { Exp::Is(Value::symbol(tok)) };
    }
    Exp::Is(Value::symbol(tok))
}

fn classify(tok: &str, q: &Q) -> Exp {
    if tok == "nil" {
        return Exp::Is(match q.nil {
            QNil::Symbol => Value::symbol("nil"),
            QNil::EmptyList => Value::Null,
            QNil::Special => Value::Nil,
        });
    }
    if tok == "t" {
        return Exp::Is(if q.t_true { Value::Bool(true) } else { Value::symbol("t") });
    }
    if tok == "#t" {
        return Exp::Is(Value::Bool(true));
    }
    if tok == "#f" {
        return Exp::Is(Value::Bool(false));
    }
    if tok == "#nil" {
        return Exp::Is(Value::Nil);
    }
    if let Some(name) = tok.strip_prefix("#:") {
        if !simple_name(name) {
            return Exp::Unspecified;
        }
        return if q.kw & KW_OCTO != 0 { Exp::Is(Value::keyword(name)) } else { Exp::MustError };
    }
    if let Some(name) = tok.strip_prefix("#%") {
        if !simple_name(name) {
            return Exp::Unspecified;
        }
        return if q.racket { Exp::Is(Value::symbol(tok)) } else { Exp::MustError };
    }
    if tok.starts_with("#x") || tok.starts_with("#b") || tok.starts_with("#o") || tok.starts_with("#d") {
        return number_exp(tok).unwrap_or(Exp::Unspecified);
    }
    if tok.starts_with('#') {
        return Exp::Unspecified;
    }
    for (sig, name) in [(",@", "unquote-splicing"), ("'", "quote"), ("`", "quasiquote"), (",", "unquote")] {
        if let Some(rest) = tok.strip_prefix(sig) {
            return match classify(rest, q) {
                Exp::Is(inner) => Exp::Is(Value::list(vec![Value::symbol(name), inner])),
                _ => Exp::Unspecified,
            };
        }
    }
    if tok == "[a b]" {
        let items = vec![Value::symbol("a"), Value::symbol("b")];
        return Exp::Is(if q.brackets_vector { Value::vector(items) } else { Value::list(items) });
    }
    if tok == "[]" {
        return Exp::Is(if q.brackets_vector { Value::vector(Vec::<Value>::new()) } else { Value::Null });
    }
    if tok == "(a b)" {
        return Exp::Is(Value::list(vec![Value::symbol("a"), Value::symbol("b")]));
    }
    let cs: Vec<char> = tok.chars().collect();
    if tok == "?" && q.chr == Syn::Elisp {
        // `?` followed by whatever comes next is a character literal there
        return Exp::Unspecified;
    }
    if cs[0] == '?' && cs.len() > 1 {
        return match q.chr {
            Syn::Elisp => {
                if cs.len() == 2 && cs[1].is_ascii_alphanumeric() {
                    Exp::Is(Value::Char(cs[1]))
                } else if cs.len() == 3 && cs[1] == '\\' && "()[];\"\\".contains(cs[2]) {
                    Exp::Is(Value::Char(cs[2]))
                } else {
                    Exp::Unspecified
                }
            }
            Syn::R6RS => {
                if cs[1..].iter().all(|c| c.is_ascii_alphanumeric()) {
                    Exp::Is(Value::symbol(tok))
                } else {
                    Exp::Unspecified
                }
            }
        };
    }
    if cs[0].is_ascii_digit() {
        if let Some(e) = number_exp(tok) {
            return e;
        }
        // with leading-digit symbols the token is a name; a trailing colon then makes it a
        // keyword exactly when the postfix spelling is enabled
        return if q.digit {
            if tok.ends_with(':') && tok.len() > 1 && !tok[..tok.len() - 1].contains(':') {
                if q.kw & KW_POSTFIX != 0 {
                    Exp::Is(Value::keyword(&tok[..tok.len() - 1]))
                } else {
                    Exp::Is(Value::symbol(tok))
                }
            } else if tok.contains(':') {
                Exp::Unspecified
            } else {
                Exp::Is(Value::symbol(tok))
            }
        } else {
            Exp::MustNotBeNumber
        };
    }
    if cs[0] == '+' || cs[0] == '-' {
        if cs.len() == 1 {
            return Exp::Is(Value::symbol(tok));
        }
        if let Some(e) = number_exp(tok) {
            return e;
        }
        if cs[1].is_ascii_digit() {
            return Exp::MustNotBeNumber;
        }
        if is_r7rs_identifier(tok) && !tok.ends_with(':') && !crate::gen::r7rs_reads_as_number(tok) {
            return Exp::Is(Value::symbol(tok));
        }
        return Exp::Unspecified;
    }
    if tok.contains(':') && (tok.starts_with(':') || tok.ends_with(':')) {
        return colon_rules(tok, q);
    }
    if is_r7rs_identifier(tok) {
        return Exp::Is(Value::symbol(tok));
    }
    Exp::Unspecified
}

pub const TOKENS: &[&str] = &[
    // nil / t and near misses
    "nil", "t", "nil:", "t:", ":nil", ":t", "nilx", "xnil", "NIL", "Nil", "tt", "T", "nil.", "t1", "#nil", "#t", "#f",
    // keywords
    ":a", "a:", ":a:", "::", ":", "#:a", "#:abc", ":abc", "abc:", "λ:", ":λ", "$a:", "a:b", ":a:b", "a:b:", "#:λ", "!:", "<=:", "+:", "-:", "...:", ".a:", "é:", "a-b:", ":a-b",
    // digit-initial
    "0", "1", "42", "007", "1.5", "0.5", "1e3", "1E3", "1e-3", "1.5e+10", "1+", "1-", "1/2", "1.5.6", "0x10", "12ab", "1e", "1.", "1e+", "1a", "9z", "1_000", "1:", "2a:", "12.", "1..2", "1e3x", "3d", "1x", "0b1", "12ab:", "1/2:", "0x10:", "1e3:", "1.5.6:", "7.", "12.e3", "1.0e+INF", "0.0e+NaN",
    // sign-initial
    "+", "-", "+1", "-1", "+1.5", "-1e3", "+a", "-a", "->x", "+.a", "-..", "--", "+-", "-1a", "+1+", "-1.5.6", "+@", "-!",
    // radix forms
    "#x1F", "#xff", "#b101", "#o17", "#d10", "#x-1F", "#b+1",
    // brackets
    "[a b]", "[]", "(a b)",
    // elisp chars
    "?a", "?Z", "?0", "?\\(", "?\\)", "?\\[", "?\\;", "?\\\\", "?ab", "?",
    // racket
    "#%a", "#%app", "#%",
    // quote shorthands
    "'a", "`a", ",a", ",@a", "'nil", "'t", "':a", "'a:", "'1", "'12ab", "''a", "'[a b]", ",'a",
    // a number (or a sign) directly followed by '#' or '|' : not a numeric literal as a whole
    "12#t", "1#", "7#:k", "1|", "-1#f", "+2#x10", "1.5#",
    // peculiar and ordinary identifiers
    "@foo", "@", "a@b", "...", ".a", "..", "a.b", "foo", "foo-bar", "λ", "λx", "x中", "!x", "<=", "*", "/", "a1", "a+", "e1", "E", "x", "set!", "a?", "?a?", "$", "%a", "&rest", "~", "^", "_", "a_b",
];

struct Cx {
    name: &'static str,
    pre: &'static str,
    post: &'static str,
}

const CONTEXTS: &[Cx] = &[
    Cx { name: "top-level", pre: "", post: " " },
    Cx { name: "end-of-input", pre: "", post: "" },
    Cx { name: "list-head", pre: "(", post: " a)" },
    Cx { name: "list-middle", pre: "(a ", post: " b)" },
    Cx { name: "list-last", pre: "(a ", post: ")" },
    Cx { name: "before-close-paren", pre: "(", post: ")" },
    Cx { name: "dotted-tail", pre: "(a . ", post: ")" },
    Cx { name: "vector-element", pre: "#(a ", post: ")" },
    Cx { name: "bracket-element", pre: "[a ", post: " b]" },
    Cx { name: "before-close-bracket", pre: "[", post: "]" },
    Cx { name: "before-comment", pre: "(", post: ";c\n)" },
    Cx { name: "bracket-dotted-tail", pre: "[a . ", post: "]" },
    // under the quotation shorthands, adjacent and separated by trivia
    Cx { name: "quoted", pre: "'", post: "" },
    Cx { name: "unquote-space", pre: ", ", post: " " },
    Cx { name: "unquote-splicing-in-list", pre: "(a ,@", post: ")" },
    Cx { name: "unquote-comment", pre: ",;c\n", post: "" },
    Cx { name: "quasiquote-space-in-vector", pre: "#(` ", post: ")" },
];

/// Extract the slot value from the parse of context(token); None = shape not preserved.
fn slot(cx: &Cx, q: &Q, v: &Value) -> Option<Value> {
    let elems = |v: &Value| -> Option<Vec<Value>> {
        match v {
            Value::Null => Some(vec![]),
            Value::Cons(c) => {
                let (xs, t) = c.to_vec();
                if t.is_null() {
                    Some(xs)
                } else {
                    None
                }
            }
            _ => None,
        }
    };
    let a = Value::symbol("a");
    let b = Value::symbol("b");
    match cx.name {
        "top-level" | "end-of-input" => Some(v.clone()),
        "list-head" => {
            let e = elems(v)?;
            if e.len() == 2 && e[1] == a {
                Some(e[0].clone())
            } else {
                None
            }
        }
        "list-middle" => {
            let e = elems(v)?;
            if e.len() == 3 && e[0] == a && e[2] == b {
                Some(e[1].clone())
            } else {
                None
            }
        }
        "list-last" => {
            let e = elems(v)?;
            if e.len() == 2 && e[0] == a {
                Some(e[1].clone())
            } else {
                None
            }
        }
        "before-close-paren" | "before-comment" => {
            let e = elems(v)?;
            if e.len() == 1 {
                Some(e[0].clone())
            } else {
                None
            }
        }
        "dotted-tail" | "bracket-dotted-tail" => {
            let (car, cdr) = v.as_pair()?;
            if *car == a {
                Some(cdr.clone())
            } else {
                None
            }
        }
        "vector-element" => {
            let s = v.as_slice()?;
            if s.len() == 2 && s[0] == a {
                Some(s[1].clone())
            } else {
                None
            }
        }
        "bracket-element" => {
            let e: Vec<Value> = if q.brackets_vector { v.as_slice()?.to_vec() } else { elems(v)? };
            if e.len() == 3 && e[0] == a && e[2] == b {
                Some(e[1].clone())
            } else {
                None
            }
        }
        "before-close-bracket" => {
            let e: Vec<Value> = if q.brackets_vector { v.as_slice()?.to_vec() } else { elems(v)? };
            if e.len() == 1 {
                Some(e[0].clone())
            } else {
                None
            }
        }
        "quoted" | "unquote-space" | "unquote-comment" | "unquote-splicing-in-list" | "quasiquote-space-in-vector" => {
            // the shorthand must have expanded to exactly (head X)
            let (head, form): (&str, Value) = match cx.name {
                "quoted" => ("quote", v.clone()),
                "unquote-space" | "unquote-comment" => ("unquote", v.clone()),
                "unquote-splicing-in-list" => {
                    let e = elems(v)?;
                    if e.len() != 2 || e[0] != a {
                        return None;
                    }
                    ("unquote-splicing", e[1].clone())
                }
                _ => {
                    let s = v.as_slice()?;
                    if s.len() != 1 {
                        return None;
                    }
                    ("quasiquote", s[0].clone())
                }
            };
            let e = elems(&form)?;
            if e.len() == 2 && e[0] == Value::symbol(head) {
                Some(e[1].clone())
            } else {
                None
            }
        }
        _ => None,
    }
}

fn token_class(tok: &str) -> &'static str {
    let c = tok.chars().next().unwrap();
    if tok.starts_with("#:") {
        "hash-keyword"
    } else if tok.starts_with("#%") {
        "racket"
    } else if tok.starts_with('#') {
        "hash-form"
    } else if c.is_ascii_digit() {
        "digit-initial"
    } else if c == '+' || c == '-' {
        "sign-initial"
    } else if c == '?' {
        "question-mark"
    } else if "'`,".contains(c) {
        "quote-shorthand"
    } else if c == '[' || c == '(' {
        "bracket-or-paren"
    } else if tok.contains(':') {
        "colon"
    } else if tok.contains("nil") || tok == "t" || tok == "tt" || tok == "T" {
        "nil-or-t"
    } else if c == '.' {
        "dot-initial"
    } else {
        "symbol"
    }
}

/// Which options does the input exercise? (over-approximation)
/// bit 0..2 kw prefix/postfix/octo, 3 nil, 4 t, 5 brackets, 6 string, 7 char, 8 racket, 9 digit
fn exercised(input: &str) -> u32 {
    let cs: Vec<char> = input.chars().collect();
    let is_c = |c: char| c.is_ascii_alphanumeric() || "!$%&*/:<=>?^_~+-.".contains(c) || (c as u32) > 127;
    let mut m = 0u32;
    let at = |i: isize| -> Option<char> {
        if i < 0 || i as usize >= cs.len() {
            None
        } else {
            Some(cs[i as usize])
        }
    };
    // Under Emacs character syntax a `?c` literal ends after the character, so
    // whatever follows it in the same word starts a new token: after a `?`
    // nothing in the rest of the word counts as "inside a token".
    let mut q_in_word = false;
    for i in 0..cs.len() {
        let c = cs[i];
        if !is_c(c) {
            q_in_word = false;
        }
        let prev_c = at(i as isize - 1).map_or(false, is_c) && !q_in_word;
        if c == '?' {
            q_in_word = true;
        }
        let next_c = at(i as isize + 1).map_or(false, is_c);
        match c {
            ':' => {
                if !prev_c {
                    m |= 1;
                }
                if !next_c {
                    m |= 2;
                }
                if at(i as isize - 1) == Some('#') {
                    m |= 4;
                }
            }
            '[' | ']' => m |= 1 << 5,
            '"' => m |= 1 << 6,
            '?' => m |= 1 << 7,
            '%' => {
                if at(i as isize - 1) == Some('#') {
                    m |= 1 << 8;
                }
            }
            '0'..='9' => {
                if !prev_c {
                    m |= 1 << 9;
                }
            }
            'n' => {
                if !prev_c && at(i as isize + 1) == Some('i') && at(i as isize + 2) == Some('l') && !at(i as isize + 3).map_or(false, is_c) {
                    m |= 1 << 3;
                }
            }
            't' => {
                if !prev_c && !next_c {
                    m |= 1 << 4;
                }
            }
            _ => {}
        }
    }
    m
}

/// Projection of Q onto the exercised options.
fn project(q: &Q, mask: u32) -> u64 {
    let mut k: u64 = 0;
    k = k * 2 + if mask & 1 != 0 { (q.kw & KW_PREFIX != 0) as u64 } else { 0 };
    k = k * 2 + if mask & 2 != 0 { (q.kw & KW_POSTFIX != 0) as u64 } else { 0 };
    k = k * 2 + if mask & 4 != 0 { (q.kw & KW_OCTO != 0) as u64 } else { 0 };
    k = k * 4 + if mask & 8 != 0 { q.nil as u64 + 1 } else { 0 };
    k = k * 2 + if mask & 16 != 0 { q.t_true as u64 } else { 0 };
    k = k * 2 + if mask & 32 != 0 { q.brackets_vector as u64 } else { 0 };
    k = k * 2 + if mask & 64 != 0 { (q.string == Syn::Elisp) as u64 } else { 0 };
    k = k * 2 + if mask & 128 != 0 { (q.chr == Syn::Elisp) as u64 } else { 0 };
    k = k * 2 + if mask & 256 != 0 { q.racket as u64 } else { 0 };
    k = k * 2 + if mask & 512 != 0 { q.digit as u64 } else { 0 };
    k
}

fn result_key(r: &Result<Value, lexpr::parse::Error>) -> String {
    match r {
        Ok(v) => format!("Ok({:?})", v),
        Err(e) => format!("Err({}:{})", cat_name(e), err_kind(e)),
    }
}

fn float_ok(e: &num::Expect, got: &Value) -> bool {
    match (e, got) {
        (num::Expect::Float { c, exact, .. }, Value::Number(n)) if n.is_f64() => {
            let r = n.as_f64().unwrap();
            if *exact {
                r.to_bits() == c.to_bits()
            } else {
                num::accurate(r, *c)
            }
        }
        _ => false,
    }
}

fn case_tok(rep: &mut Report, tok: &str, ci: usize) {
    let cx = &CONTEXTS[ci];
    // a bracket token inside the bracket contexts nests; fine. A token containing
    // a newline-sensitive comment char is not in the corpus.
    let input = format!("{}{}{}", cx.pre, tok, cx.post);
    let mask = exercised(&input);
    let mut groups: HashMap<u64, (usize, String)> = HashMap::new();
    let class = token_class(tok);
    let mut reported_a = false;
    let mut reported_b = false;
    let mut reported_d = false;
    let mut reported_q = false;
    for qi in 0..N_Q {
        let q = Q::from_index(qi);
        let r = lexpr::from_str_custom(&input, q.to_lexpr());
        rep.eval();
        // the option-governed reading must be the same through the location-tracking API
        if !reported_d {
            let rd = lexpr::datum::from_str_custom(&input, q.to_lexpr()).map(|d| d.value().clone());
            if result_key(&r) != result_key(&rd) {
                reported_d = true;
                rep.violation(
                    "datum-api",
                    format!("C08:datum-api-reads-differently:{}:{}", class, cx.name),
                    format!("input {:?} with {}: value API gives {} but datum API gives {}", show_str(&input), q.describe(), result_key(&r), result_key(&rd)),
                    json!({"input": input, "q_index": qi}),
                );
            }
        }
        rep.distinct(hash2(hash_str(&input), qi as u64));
        // ---- (c) under a quotation shorthand: whatever the token reads as, an accepted
        // input is exactly (head X) with the head the shorthand stands for
        if !reported_q && matches!(cx.name, "quoted" | "unquote-space" | "unquote-comment" | "unquote-splicing-in-list" | "quasiquote-space-in-vector") {
            // only for tokens that are one datum by themselves under this option set
            // (`?ab` is two under Emacs character syntax: the shorthand takes the first)
            let alone = lexpr::from_str_custom(tok, q.to_lexpr());
            if let (Ok(v), Ok(x)) = (&r, &alone) {
                rep.count("quotation:shape-judged");
                let got = slot(cx, &q, v);
                if got.as_ref().map_or(true, |g| crate::model::cmp::veq(g, x, crate::model::cmp::FloatRule::Bits).is_err()) {
                    reported_q = true;
                    rep.violation(
                        "quotation",
                        format!("C08:quotation-shorthand-shape:{}", cx.name),
                        format!("input {:?} with {}: read as {}, not as the two-element list headed by the symbol this shorthand stands for followed by what {:?} reads as alone ({})", show_str(&input), q.describe(), dbg_value(v), tok, dbg_value(x)),
                        json!({"input": input, "q_index": qi}),
                    );
                }
            }
        }
        // ---- (b) non-interference
        let key = project(&q, mask);
        let rk = result_key(&r);
        match groups.get(&key) {
            None => {
                groups.insert(key, (qi, rk.clone()));
            }
            Some((q0, r0)) => {
                if *r0 != rk && !reported_b {
                    reported_b = true;
                    let qa = Q::from_index(*q0);
                    let differing: Vec<&str> = [
                        ("kw-prefix", (qa.kw ^ q.kw) & KW_PREFIX != 0),
                        ("kw-postfix", (qa.kw ^ q.kw) & KW_POSTFIX != 0),
                        ("kw-octothorpe", (qa.kw ^ q.kw) & KW_OCTO != 0),
                        ("nil", qa.nil != q.nil),
                        ("t", qa.t_true != q.t_true),
                        ("brackets", qa.brackets_vector != q.brackets_vector),
                        ("string-syntax", qa.string != q.string),
                        ("char-syntax", qa.chr != q.chr),
                        ("racket", qa.racket != q.racket),
                        ("leading-digit", qa.digit != q.digit),
                    ]
                    .iter()
                    .filter(|(_, d)| *d)
                    .map(|(n, _)| *n)
                    .collect();
                    rep.violation(
                        "non-interference",
                        format!("C08:option-interferes:{}:{}", differing.join("+"), class),
                        format!("input {:?} does not exercise option(s) {:?}, yet {} gives {} while {} gives {}", show_str(&input), differing, qa.describe(), r0, q.describe(), rk),
                        json!({"input": input, "q_a": q0, "q_b": qi}),
                    );
                }
            }
        }
        // ---- (a) classifier
        if reported_a {
            continue;
        }
        let exp = if cx.name == "bracket-dotted-tail" && q.brackets_vector { Exp::Unspecified } else { classify(tok, &q) };
        let mut fail = |what: &str, detail: String, rep: &mut Report| {
            rep.violation(
                "classifier",
                format!("C08:{}:{}:{}", what, class, cx.name),
                format!("token {:?} in context {} ({:?}) with {}: {}", tok, cx.name, show_str(&input), q.describe(), detail),
                json!({"input": input, "token": tok, "context": cx.name, "q_index": qi}),
            );
        };
        match (&exp, &r) {
            (Exp::Unspecified, _) => rep.count("classifier:unspecified"),
            (Exp::MustError, Err(_)) => rep.count("classifier:must-error-ok"),
            (Exp::MustError, Ok(v)) => {
                reported_a = true;
                fail("accepted-but-must-error", format!("documented to be an error with this option set, but read as {}", dbg_value(v)), rep);
            }
            (Exp::MustNotBeNumber, Err(_)) => rep.count("classifier:not-number-ok"),
            (Exp::MustNotBeNumber, Ok(v)) => match slot(cx, &q, v) {
                Some(Value::Number(n)) => {
                    reported_a = true;
                    fail("prefix-read-as-number", format!("the token is not a numeric literal as a whole but was read as the number {:?}", n), rep);
                }
                Some(_) => rep.count("classifier:not-number-ok"),
                None => {
                    reported_a = true;
                    fail("token-split", format!("the token is not a numeric literal as a whole but was split into several datums: {}", dbg_value(v)), rep);
                }
            },
            (Exp::Is(_), Err(e)) | (Exp::IsFloat(_), Err(e)) => {
                // a token that legitimately cannot stand in this context? all corpus tokens can.
                reported_a = true;
                fail(&format!("rejected:{}", err_kind(e)), format!("documented reading {:?} but the parser fails: {}", exp, e), rep);
            }
            (Exp::Is(want), Ok(v)) => match slot(cx, &q, v) {
                Some(got) => {
                    // dotted tail: a list-valued token merges into the chain; compare structurally
                    if crate::model::cmp::veq(want, &got, crate::model::cmp::FloatRule::Bits).is_ok() {
                        rep.count("classifier:reading-ok");
                    } else {
                        reported_a = true;
                        fail("misread", format!("documented reading {} but got {}", dbg_value(want), dbg_value(&got)), rep);
                    }
                }
                None => {
                    reported_a = true;
                    fail("context-shape-changed", format!("documented reading {} in this slot, but the whole input read as {}", dbg_value(want), dbg_value(v)), rep);
                }
            },
            (Exp::IsFloat(fe), Ok(v)) => match slot(cx, &q, v) {
                Some(got) if float_ok(fe, &got) => rep.count("classifier:reading-ok"),
                Some(got) => {
                    reported_a = true;
                    fail("misread-number", format!("expected {:?}, got {}", fe, dbg_value(&got)), rep);
                }
                None => {
                    reported_a = true;
                    fail("context-shape-changed", format!("the whole input read as {}", dbg_value(v)), rep);
                }
            },
        }
    }
    rep.count_n("non-interference:groups", groups.len() as u64);
    rep.count(&format!("token-class:{}", class));
    sample_if_room(rep, || json!({"input": input, "exercised_mask": mask, "groups": groups.len()}));
}

/// Random tokens: identifiers of the R7RS grammar, and numeric literals with a random
/// one- or two-character suffix/infix (near misses).
fn random_token(rng: &mut crate::rng::Rng) -> String {
    match rng.below(4) {
        0 | 1 => {
            let mut t = crate::gen::gen_ident(rng);
            if rng.chance(1, 5) {
                t.push(':');
            }
            if rng.chance(1, 8) {
                t.insert(0, ':');
            }
            t
        }
        2 => {
            // number followed by junk
            let num = *rng.pick::<&str>(&["0", "1", "42", "-7", "+3", "1.5", "-0.25", "1e3", "2E-2", "6.02e23", "007", "18446744073709551616"]);
            let junk = *rng.pick::<&str>(&["", "a", "+", "-", "/2", ".5", "e", "x", "_", ":", "..", "%", "!", "1a", "d0", "f", "L"]);
            format!("{}{}", num, junk)
        }
        _ => {
            let d = rng.below(1000).to_string();
            let mid = *rng.pick::<&str>(&["", ".", "e", "E", "e+", "e-", "/", "x", "-", "+", ":", ".."]);
            format!("{}{}{}", d, mid, rng.below(100))
        }
    }
}

// ---------------------------------------------------------------- options API
//
// The option *set* is what governs the reading, however it was assembled: the
// builder calls commute, `with_keyword_syntaxes` takes a set (order and
// repetition are immaterial), `with_keyword_syntax` adds one member, and the
// query methods report what was set. `Options::default()` and
// `Options::elisp()` are the documented named sets.

const PROBES: &[&str] = &[
    "nil", "t", ":a", "a:", "#:a", "[1 2]", "?a", "#%a", "1+", "12ab", "\"\\x41;\"", "\"\\101\"", "(nil t :k k: #:k [x] #%r 1x)", "'nil", "#\\a", "(a . [b])",
    "1e+3", "-", "+5", "#t", "#f", "()", "#u8(1 2)", "\"\\N{U+41}\"", "?\\C-a",
];

fn probe_readings(o: lexpr::parse::Options) -> Vec<String> {
    PROBES.iter().map(|p| result_key(&lexpr::from_str_custom(p, o))).collect()
}

fn getters(o: lexpr::parse::Options) -> String {
    use lexpr::parse::KeywordSyntax as K;
    format!(
        "kw(prefix={},postfix={},octothorpe={}) nil={:?} t={:?} brackets={:?} string={:?} char={:?} racket={} digit={}",
        o.keyword_syntax(K::ColonPrefix),
        o.keyword_syntax(K::ColonPostfix),
        o.keyword_syntax(K::Octothorpe),
        o.nil_symbol(),
        o.t_symbol(),
        o.brackets(),
        o.string_syntax(),
        o.char_syntax(),
        o.racket_hash_percent_symbols(),
        o.leading_digit_symbols()
    )
}

fn expected_getters(q: &Q) -> String {
    format!(
        "kw(prefix={},postfix={},octothorpe={}) nil={} t={} brackets={} string={} char={} racket={} digit={}",
        q.kw & KW_PREFIX != 0,
        q.kw & KW_POSTFIX != 0,
        q.kw & KW_OCTO != 0,
        match q.nil {
            crate::opts::QNil::Symbol => "Default",
            crate::opts::QNil::EmptyList => "EmptyList",
            crate::opts::QNil::Special => "Special",
        },
        if q.t_true { "True" } else { "Default" },
        if q.brackets_vector { "Vector" } else { "List" },
        if q.string == Syn::Elisp { "Elisp" } else { "R6RS" },
        if q.chr == Syn::Elisp { "Elisp" } else { "R6RS" },
        q.racket,
        q.digit
    )
}

/// Assemble the option set of `q` by a random route through the builder API.
fn assemble(q: &Q, rng: &mut crate::rng::Rng) -> (lexpr::parse::Options, String) {
    use lexpr::parse::{Brackets, KeywordSyntax as K, NilSymbol, Options, TSymbol};
    use lexpr::parse::{CharSyntax, StringSyntax};
    let mut route = Vec::new();
    // start from any of the three constructors: every field is overwritten below
    let mut o = match rng.below(3) {
        0 => {
            route.push("new".to_string());
            Options::new()
        }
        1 => {
            route.push("default".to_string());
            Options::default()
        }
        _ => {
            route.push("elisp".to_string());
            Options::elisp()
        }
    };
    let members: Vec<K> = [(KW_PREFIX, K::ColonPrefix), (KW_POSTFIX, K::ColonPostfix), (KW_OCTO, K::Octothorpe)].iter().filter(|(b, _)| q.kw & b != 0).map(|(_, k)| *k).collect();
    let mut steps: Vec<u8> = (0..8).collect();
    rng.shuffle(&mut steps);
    for st in steps {
        match st {
            0 => {
                // keyword set: as a set with repetitions in random order, or reset + one by one
                if rng.bool() {
                    let mut list = members.clone();
                    for _ in 0..rng.below(4) {
                        if !members.is_empty() {
                            list.push(*rng.pick(&members));
                        }
                    }
                    rng.shuffle(&mut list);
                    route.push(format!("with_keyword_syntaxes({:?})", list));
                    o = if rng.bool() { o.with_keyword_syntaxes(list.iter()) } else { o.with_keyword_syntaxes(list) };
                } else {
                    route.push("with_keyword_syntaxes([])".to_string());
                    o = o.with_keyword_syntaxes(Vec::<K>::new());
                    let mut list = members.clone();
                    if !members.is_empty() && rng.bool() {
                        list.push(*rng.pick(&members));
                    }
                    rng.shuffle(&mut list);
                    for k in list {
                        route.push(format!("with_keyword_syntax({:?})", k));
                        o = o.with_keyword_syntax(k);
                    }
                }
            }
            1 => {
                o = o.with_nil_symbol(match q.nil {
                    crate::opts::QNil::Symbol => NilSymbol::Default,
                    crate::opts::QNil::EmptyList => NilSymbol::EmptyList,
                    crate::opts::QNil::Special => NilSymbol::Special,
                });
                route.push("nil".into());
            }
            2 => {
                o = o.with_t_symbol(if q.t_true { TSymbol::True } else { TSymbol::Default });
                route.push("t".into());
            }
            3 => {
                o = o.with_brackets(if q.brackets_vector { Brackets::Vector } else { Brackets::List });
                route.push("brackets".into());
            }
            4 => {
                o = o.with_string_syntax(if q.string == Syn::Elisp { StringSyntax::Elisp } else { StringSyntax::R6RS });
                route.push("string".into());
            }
            5 => {
                o = o.with_char_syntax(if q.chr == Syn::Elisp { CharSyntax::Elisp } else { CharSyntax::R6RS });
                route.push("char".into());
            }
            6 => {
                o = o.with_racket_hash_percent_symbols(q.racket);
                route.push("racket".into());
            }
            _ => {
                o = o.with_leading_digit_symbols(q.digit);
                route.push("digit".into());
            }
        }
    }
    (o, route.join(" . "))
}

fn case_options_api(rep: &mut Report, rng: &mut crate::rng::Rng, qi: usize) {
    let q = Q::from_index(qi);
    let reference = q.to_lexpr();
    let want_get = expected_getters(&q);
    let want_read = probe_readings(reference);
    for round in 0..4 {
        let (o, route) = if round == 0 { (reference, "reference route".to_string()) } else { assemble(&q, rng) };
        rep.eval();
        rep.distinct(hash2(hash_str(&route), qi as u64));
        let g = getters(o);
        if g != want_get {
            rep.violation(
                "options-api",
                "C08:options-api:query-methods-disagree-with-builder".into(),
                format!("option set {} assembled by [{}]: query methods report {} instead of {}", q.describe(), route, g, want_get),
                json!({"q_index": qi, "route": route}),
            );
            return;
        }
        let got = probe_readings(o);
        if let Some(i) = (0..PROBES.len()).find(|&i| got[i] != want_read[i]) {
            rep.violation(
                "options-api",
                "C08:options-api:assembly-route-changes-reading".into(),
                format!("option set {} assembled by [{}] reads {:?} as {} but assembled by the reference route reads it as {}", q.describe(), route, PROBES[i], got[i], want_read[i]),
                json!({"q_index": qi, "route": route, "probe": PROBES[i]}),
            );
            return;
        }
        rep.count("options-api:routes-agree");
    }
    // the two named sets
    for (name, o, qn) in [("Options::default()", lexpr::parse::Options::default(), Q::default_()), ("Options::elisp()", lexpr::parse::Options::elisp(), Q::elisp())] {
        if qi != qn.index() {
            continue;
        }
        rep.eval();
        let (g, r) = (getters(o), probe_readings(o));
        if g != want_get || r != want_read {
            rep.violation(
                "options-api",
                format!("C08:options-api:named-set-differs:{}", name),
                format!("{} reports {} (documented: {}); probe readings {}", name, g, want_get, if r == want_read { "agree" } else { "differ" }),
                json!({"q_index": qi, "named": name}),
            );
        }
        rep.count("options-api:named-sets-checked");
    }
}

pub fn sets(ctx: &Ctx) -> Vec<CaseSet> {
    let nt = TOKENS.len();
    let nc = CONTEXTS.len();
    let n_random = ctx.size(800, 40_000);
    vec![
        CaseSet::new("options-builder-and-query-api-x-all-option-sets", N_Q as u64, Box::new(move |rep, rng, case| case_options_api(rep, rng, case as usize))),
        CaseSet::new(
            "random-tokens-x-contexts-x-all-option-sets",
            n_random,
            Box::new(move |rep, rng, _| {
                let tok = random_token(rng);
                if tok.is_empty() || tok.contains(|c: char| c.is_whitespace()) {
                    return;
                }
                let ci = rng.below(nc);
                case_tok(rep, &tok, ci);
            }),
        ),
        CaseSet::new(
        "token-corpus-x-contexts-x-all-option-sets",
        (nt * nc) as u64,
        Box::new(move |rep, _rng, case| {
            case_tok(rep, TOKENS[case as usize / nc], case as usize % nc);
        }),
    )]
}
