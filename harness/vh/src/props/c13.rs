//! C13 -- whatever the parser accepts can be printed and read back unchanged.

use crate::gen::text::{self, Lang, LayoutCfg, TriviaSet};
use crate::gen::{self, GenCfg, Tables};
use crate::model::cmp::{any_node, fold, veq, FloatRule};
use crate::model::num;
use crate::opts::{PBytes, PKw, PNil, Syn, KW_OCTO, KW_POSTFIX, KW_PREFIX, N_Q, P, Q};
use crate::props::common::*;
use crate::props::PropDef;
use crate::report::{hex, show, show_str, Report};
use crate::rng::{hash2, hash_bytes, Rng};
use crate::run::{CaseSet, Ctx};
use lexpr::Value;
use serde_json::json;
use std::sync::Arc;

pub fn def() -> PropDef {
    PropDef {
        id: "C13",
        level: "exploration",
        rule: "cases = (text accepted by the parser under option set Q, Q): token soup, alternative-spelling layouts (radix prefixes, every escape form, char names, bracket lists, dotted proper lists, quote shorthands), digit-initial and #% symbols, lenient symbol constituents, mutated printer output; Q drawn from all 1536 plus the named pairs default/default and elisp()/elisp(). For each accepted text: v = parse(s); t = print_mirror(Q)(v); parse(t) must equal fold(v) and, when every float is in the reader's exact domain (always in the build without fast-float-parsing), print(parse(t)) == t. non-trivial = an accepted text taken through parse/print/parse/print; distinct = hash of (text, Q). At least 10% of generated inputs must be accepted",
        assumptions: &["mirror(Q) is one documented choice of 'corresponding printer options' (least demanding spelling); other spellings on plain names are C02's subject"],
        nofast_too: true,
        min_quick: 100_000,
        min_thorough: 5_000_000,
        sets,
        post: Some(post),
    }
}

fn post(_ctx: &Ctx, rep: &mut Report) {
    let gen = rep.counters.get("generated").copied().unwrap_or(0);
    let acc = rep.counters.get("accepted").copied().unwrap_or(0);
    if gen == 0 || acc * 10 < gen {
        rep.inconclusive(format!("only {} of {} generated inputs were accepted by the parser (< 10%)", acc, gen));
    }
}

/// The corresponding printer options: least demanding spellings.
pub fn mirror(q: &Q) -> P {
    P {
        kw: if q.kw & KW_OCTO != 0 {
            PKw::Octo
        } else if q.kw & KW_PREFIX != 0 {
            PKw::Prefix
        } else if q.kw & KW_POSTFIX != 0 {
            PKw::Postfix
        } else {
            PKw::Octo
        },
        nil: PNil::Token,
        bool_symbol: false,
        vec_brackets: false,
        bytes: PBytes::R7RS,
        string: q.string,
        chr: q.chr,
    }
}

/// Other documented spellings the same parser recognises: brackets for vectors when
/// brackets mean vectors, R6RS byte-vector prefix.
pub fn mirror_alt(q: &Q) -> P {
    P {
        // keyword spelling as in mirror(): names are emitted verbatim, and a postfix
        // spelling cannot carry a name whose first character selects another lexer arm
        // (`#a:`); spellings on plain names are C02's subject
        kw: mirror(q).kw,
        nil: PNil::Token,
        bool_symbol: false,
        vec_brackets: q.brackets_vector,
        bytes: PBytes::R6RS,
        string: q.string,
        chr: q.chr,
    }
}

fn floats_exact(v: &Value) -> bool {
    !any_node(v, &|x| match x {
        Value::Number(n) if n.is_f64() => {
            let f = n.as_f64().unwrap();
            let (nd, p) = num::shortest_form(f);
            !(nd <= 15 && p.abs() <= 22)
        }
        _ => false,
    })
}

/// None if fine, Some((kind, detail)).
fn failure(v: &Value, p: &P, q: &Q, nofast: bool) -> Option<(String, String)> {
    let t = match lexpr::to_string_custom(v, p.to_lexpr()) {
        Ok(t) => t,
        Err(e) => return Some(("print-failed".into(), e.to_string())),
    };
    let want = fold(v, p, q);
    let rule = if nofast { FloatRule::Bits } else { FloatRule::RoundTripFast };
    let v2 = match lexpr::from_str_custom(&t, q.to_lexpr()) {
        Ok(v2) => v2,
        Err(e) => return Some((format!("reprint-rejected:{}", err_kind(&e)), format!("printed as {:?}, which the same parser rejects: {}", show_str(&t), e))),
    };
    if let Err(d) = veq(&want, &v2, rule) {
        return Some(("reread-differs".into(), format!("printed as {:?}, which reads back differently: {}", show_str(&t), d)));
    }
    let folded = veq(v, &want, FloatRule::Bits).is_err();
    if folded {
        // The documented folding changed the value (e.g. false printed as nil reads
        // back as the empty list), so print(v2) legitimately differs from t; the
        // fixed point is then demanded from the folded value on.
        if veq(&fold(&v2, p, q), &v2, FloatRule::Bits).is_ok() {
            return failure(&v2, p, q, nofast).map(|(k, d)| (format!("after-folding:{}", k), d));
        }
        return None;
    }
    if nofast || floats_exact(v) {
        match lexpr::to_string_custom(&v2, p.to_lexpr()) {
            Ok(t2) if t2 == t => {}
            Ok(t2) => return Some(("no-fixed-point".into(), format!("parse/print/parse/print does not reach a fixed point: {:?} then {:?}", show_str(&t), show_str(&t2)))),
            Err(e) => return Some(("print-failed".into(), e.to_string())),
        }
    }
    None
}

/// For a compound that fails although each child passes alone: the classes of
/// its children, so that the signature names the interacting leaves.
fn culprit(v: &Value) -> String {
    let ch = children(v);
    if ch.is_empty() {
        return String::new();
    }
    let mut parts: Vec<String> = ch.iter().take(4).map(|c| match c {
        Value::Symbol(s) | Value::Keyword(s) => {
            let mut t = leaf_class(c);
            // only the first unusual constituent in this fixed order: a name usually fails
            // because of one of them, and the others would only split one cause over
            // many signatures
            for bad in ['"', '|', '\'', '`', ',', '#', '\\'] {
                if s.contains(bad) {
                    t.push_str(&format!("+contains{:?}", bad));
                    break;
                }
            }
            t
        }
        other => leaf_class(other),
    }).collect();
    parts.dedup();
    format!("[{}]", parts.join(","))
}

fn check(rep: &mut Report, input: &[u8], q: &Q, p: &P, tag: &str, nofast: bool) {
    rep.count("generated");
    let s = match std::str::from_utf8(input) {
        Ok(s) => s,
        Err(_) => return,
    };
    let v = match lexpr::from_str_custom(s, q.to_lexpr()) {
        Ok(v) => v,
        Err(_) => return,
    };
    rep.count("accepted");
    rep.count(&format!("accepted:{}", tag));
    rep.eval();
    rep.distinct(hash2(hash_bytes(input), (q.index() * 7 + p.index()) as u64));
    match failure(&v, p, q, nofast) {
        None => {
            sample_if_room(rep, || json!({"accepted_text": show_str(s), "Q": q.describe(), "printed": lexpr::to_string_custom(&v, p.to_lexpr()).unwrap_or_default()}));
        }
        Some((kind, _)) => {
            let k0 = kind.clone();
            let small = shrink(&v, &|x| failure(x, p, q, nofast).map_or(false, |(k, _)| k == k0));
            let (kind, detail) = failure(&small, p, q, nofast).unwrap_or((kind, "(not reproduced on shrunk value)".into()));
            rep.violation(
                "accept-print-reread",
                format!("C13:{}:{}{}", kind, leaf_class(&small), culprit(&small)),
                format!("accepted {:?} under {}; sub-value {} {}", show(input), q.describe(), dbg_value(&small), detail),
                json!({"input_hex": hex(input), "q_index": q.index(), "p_index": p.index(), "generator": tag}),
            );
        }
    }
}

pub const LENIENT: &[&str] = &[
    "a#b", "a\"b\"", "a'b", "a|b", "a`b", "a,b", "a\\b", "{", "}", "a{b}", "|x|", "||", "a\x7fb", "a\u{a0}b", "x\u{2028}y", "é\u{301}", "λ\u{200b}", "#:", "#:#a", "#::a", "::a", "a::", ":a:", "::",
    "1+", "1-", "12ab", "1.5.6", "0x10", "1e3x", "1:", "2a:", "1e400", "1e", "9.", "#%app", "#%", "#%1", "+a", "-a", "->x", "+.a", "-..", "...", ".a", "..", "a.b", "nil.", "t?", "?a", "?ab", "?\\", "a?", "&", "@a", "a@", "^", "_", "~a", "%", "<=>", "!$%&*/:<=>?^_~",
    "#\\x", "#\\x0", "#\\x10FFFF", "#\\λ", "#\\nul", "#\\delete", "#\\(", "#\\#", "#\\;", "#\\\"", "#\\'", "#\\ ", "\"\\x0;\"", "\"\\x10FFFF;\"", "\"\\|\"", "\"\\v\\f\"", "\"a\nb\"", "\"\t\"",
    "?\\^a", "?\\^Z", "?\\d", "?\\e", "?\\s", "?\\N{U+41}", "?\\u0041", "?\\U00000041", "?\\101", "?\\x41", "? ", "?\"", "?λ", "\"\\e\\d\\s\"", "\"\\^a\"", "\"\\101\"", "\"\\x41\"", "\"\\x41\\ b\"", "\"\\u00e9\\x41\"", "\"a\\\nb\"", "\"\\400\"", "\"\\x100\"", "\"\\q\"",
    "\"\\xe9;\"", "\"\\x80;\\xff;\"", "\"caf\\xe9;\"", "#\\xe9", "#\\x80", "?\\xe9", "\"\\351\"",
    "0.0000001", "+1e-7", "#d5e-9", "0.00000123", "1e-7", "1.0e-7", "+1e21", "#d1e21",
    ".|b", ".|", ".'b", ".`b", ".,b", ".,@b", "..'", "+'a", "-`a", "a'", "a,", ".a'b", "...'", "-.'a", "+.,a", "1'x", "-'a", ".#a", ".[", ".;c",
    "1.0e+INF", "-1.0e+INF", "0.0e+NaN", "1e+INF", "1.0e+inf", "inf", "-inf", "NaN", "+inf.0", "-nan.0",
    "#x-10000000000000000000000000000000000000000000000000000000000000000000000000000000000000000000000000000000000000000000000000000000000000000000000000000000000000000000000000000000000000000000000000000000000000000000000000000000000000000000000000000000000000000", "#x10000000000000000000000000000000000000000000000000000000000000000000000000000000000000000000000000000000000000000000000000000000000000000000000000000000000000000000000000000000000000000000000000000000000000000000000000000000000000000000000000000000000000000", "#b-10000000000000000000000000000000000000000000000000000000000000000000000000000000000000000000000000000000000000000000000000000000000000000000000000000000000000000000000000000000000000000000000000000000000000000000000000000000000000000000000000000000000000000000000000000000000000000000000000000000000000000000000000000000000000000000000000000000000000000000000000000000000000000000000000000000000000000000000000000000000000000000000000000000000000000000000000000000000000000000000000000000000000000000000000000000000000000000000000000000000000000000000000000000000000000000000000000000000000000000000000000000000000000000000000000000000000000000000000000000000000000000000000000000000000000000000000000000000000000000000000000000000000000000000000000000000000000000000000000000000000000000000000000000000000000000000000000000000000000000000000000000000000000000000000000000000000000000000000000000000000000000000000000000000000000000000000000000000000000000000000000000000000000000000000000000000000000000000000000000000000000", "#o-200000000000000000000000000000000000000000000000000000000000000000000000000000000000000000000000000000000000000000000000000000000000000000000000000000000000000000000000000000000000000000000000000000000000000000000000000000000000000000000000000000000000000000000000000000000000000000000000000000000000000000000000000000000000000000000000000000",
    "-0", "+0", "-0.0", "00012", "1.50", "1.0e0", "1E3", "#e1", "#x-0", "#b-101", "#o777", "#d0012", "#xABCDEF", "18446744073709551616", "-9223372036854775809", "1e-400", "0.1e1",
];

fn lenient_text(rng: &mut Rng) -> Vec<u8> {
    let n = rng.range(1, 4);
    let wrap = rng.below(6);
    let mut s = String::new();
    match wrap {
        0 => {}
        1 => s.push('('),
        2 => s.push_str("#("),
        3 => s.push('['),
        4 => s.push_str("(a . "),
        _ => s.push_str(*rng.pick::<&str>(&["'", "`", ",", ",@", "''", "(a '", "#(`"])),
    }
    let closer = if s.ends_with("(a '") { ")" } else if s.ends_with("#(`") { ")" } else { "" };
    let n = if wrap == 0 || wrap >= 4 { 1 } else { n };
    for i in 0..n {
        if i > 0 {
            s.push(' ');
        }
        s.push_str(*rng.pick::<&str>(LENIENT));
    }
    match wrap {
        0 => {}
        3 => s.push(']'),
        5 => s.push_str(closer),
        _ => s.push(')'),
    }
    s.into_bytes()
}

pub fn sets(ctx: &Ctx) -> Vec<CaseSet> {
    let tb = Arc::new(Tables::new());
    let nofast = ctx.nofast;
    let mut cfg = GenCfg::default_dialect();
    cfg.max_depth = 3;
    cfg.max_items = 4;
    cfg.name_ok = gen::any_name;
    let cfg = Arc::new(cfg);
    let mut out = Vec::new();

    let (tb1, cfg1) = (tb.clone(), cfg.clone());
    out.push(CaseSet::new(
        "accepted-texts",
        ctx.size(900_000, 40_000_000),
        Box::new(move |rep, rng, _| {
            let (input, tag): (Vec<u8>, &str) = match rng.below(8) {
                0 | 1 => (text::token_soup(rng, 5), "token-soup"),
                2 | 3 => (lenient_text(rng), "lenient-corpus"),
                4 => {
                    let lang = if rng.bool() { Lang::Scheme } else { Lang::Elisp };
                    let lc = LayoutCfg { lang, trivia: TriviaSet::WithFormFeed, alt_spellings: true, brackets_as_list: lang == Lang::Scheme };
                    let v = gen::gen_value(rng, &cfg1, &tb1, 1);
                    (text::layout(rng, &lc, &v).into_bytes(), "alt-spelling-layout")
                }
                5 => {
                    let v = gen::gen_value(rng, &cfg1, &tb1, 1);
                    (text::mutate(rng, lexpr::to_string(&v).unwrap().as_bytes()), "mutated-printer-output")
                }
                6 => {
                    let v = gen::gen_value(rng, &cfg1, &tb1, 1);
                    (lexpr::to_string_custom(&v, P::from_index(rng.below(crate::opts::N_P)).to_lexpr()).unwrap().into_bytes(), "printer-output-any-options")
                }
                _ => {
                    // single soup token in a list
                    let t = *rng.pick::<&str>(text::SOUP);
                    (format!("({} x)", t).into_bytes(), "soup-token-in-list")
                }
            };
            // option sets: named pairs and random ones
            match rng.below(6) {
                0 => check(rep, &input, &Q::default_(), &P::default_(), tag, nofast),
                1 => check(rep, &input, &Q::elisp(), &P::elisp(), tag, nofast),
                2 => check(rep, &input, &Q::default_(), &mirror(&Q::default_()), tag, nofast),
                3 => check(rep, &input, &Q::elisp(), &mirror(&Q::elisp()), tag, nofast),
                _ => {
                    let q = Q::from_index(rng.below(N_Q));
                    if rng.bool() {
                        check(rep, &input, &q, &mirror(&q), tag, nofast)
                    } else {
                        check(rep, &input, &q, &mirror_alt(&q), tag, nofast)
                    }
                }
            }
        }),
    ));

    // every lenient corpus entry under every option set, alone and in a list
    out.push(CaseSet::new(
        "lenient-corpus-x-all-option-sets",
        LENIENT.len() as u64,
        Box::new(move |rep, _rng, case| {
            let tok = LENIENT[case as usize];
            for qi in 0..N_Q {
                let q = Q::from_index(qi);
                let p = mirror(&q);
                check(rep, tok.as_bytes(), &q, &p, "lenient-alone", nofast);
                check(rep, format!("({} x)", tok).as_bytes(), &q, &p, "lenient-in-list", nofast);
                // as the last element of a vector / bracket form, printed with the alternative spellings
                let pa = mirror_alt(&q);
                check(rep, format!("#(x {})", tok).as_bytes(), &q, &pa, "lenient-last-in-vector", nofast);
                check(rep, format!("[x {}]", tok).as_bytes(), &q, &pa, "lenient-last-in-brackets", nofast);
                // under a quotation shorthand and as a dotted tail: the two places where
                // the printer moves the token into a different context (long form of the
                // shorthand: second list element; tail: after " . ")
                let sh = ["'", "`", ",", ",@"][qi % 4];
                check(rep, format!("{}{}", sh, tok).as_bytes(), &q, &p, "lenient-under-shorthand", nofast);
                check(rep, format!("(x . {})", tok).as_bytes(), &q, &p, "lenient-dotted-tail", nofast);
                check(rep, format!("(x {}{})", sh, tok).as_bytes(), &q, &pa, "lenient-under-shorthand-in-list", nofast);
            }
        }),
    ));
    // nesting near and beyond the limit, through every nesting construct: what is
    // accepted must still be accepted after printing (shorthands print in long form)
    out.push(CaseSet::new(
        "near-limit-nesting",
        ctx.size(400, 4_000),
        Box::new(move |rep, rng, _| {
            let units: &[(&str, &str)] = &[("'", ""), ("`", ""), (",", ""), (",@", ""), ("(", ")"), ("#(", ")"), ("[", "]"), ("(a . ", ")")];
            let total = rng.range(90, 140);
            let mut open = String::new();
            let mut close = String::new();
            let mode = rng.below(3);
            for i in 0..total {
                let (o, c) = match mode {
                    0 => units[rng.below(4)],               // only shorthands
                    1 => units[rng.below(units.len())],      // anything
                    _ => if i < total / 2 { units[4 + rng.below(4)] } else { units[rng.below(4)] }, // brackets outside, shorthands inside
                };
                open.push_str(o);
                close.insert_str(0, c);
            }
            let text = format!("{}x{}", open, close);
            let q = if rng.bool() { Q::default_() } else { Q::from_index(rng.below(N_Q)) };
            rep.count("near-limit-nesting-inputs");
            check(rep, text.as_bytes(), &q, &mirror(&q), "near-limit-nesting", nofast);
            if rng.bool() {
                check(rep, text.as_bytes(), &Q::elisp(), &P::elisp(), "near-limit-nesting", nofast);
            }
        }),
    ));
    let _ = Syn::R6RS;
    out
}
