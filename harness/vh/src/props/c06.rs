//! C06 -- string, slice and stream input give the same result; read errors surface.
//!
//! Oracles: (a) three-way outcome equality across sources and chunking
//! schedules; (b) an exact fault oracle derived from a fault-free twin run
//! through a counting reader.

use crate::gen::text::{self, Lang, LayoutCfg, TriviaSet};
use crate::gen::{self, GenCfg, Tables};
use crate::model::cmp::{veq, FloatRule};
use crate::mon::io::*;
use crate::opts::{Q, N_Q};
use crate::props::common::*;
use crate::props::PropDef;
use crate::report::{hex, show, Report};
use crate::rng::{hash2, hash_bytes, Rng};
use crate::run::{CaseSet, Ctx};
use lexpr::parse::Options;
use lexpr::{Parser, Value};
use serde_json::json;
use std::error::Error as _;
use std::io::BufReader;
use std::sync::Arc;

pub fn def() -> PropDef {
    PropDef {
        id: "C06",
        level: "fault_enumeration",
        rule: "cases = (input bytes, parser options, API in {value, datum, value_iter, datum_iter}, source/schedule in {&str, &[u8], stream x {1-byte, random, whole, BufReader(1,2,3,8)} x Interrupted injection}) for the agreement clause, and (input, options, API, fault offset k) with a hard error (of 8 rotating io::ErrorKinds, UnexpectedEof included) injected at EVERY offset k in 0..=len for the fault clause (exhaustive per input). inputs: printer output in both dialects, layout-printer output, token soup, mutated and UTF-8-corrupted text. non-trivial = one faulted or scheduled run judged against the twin; distinct = hash of (input, options, api, schedule or offset)",
        assumptions: &[
            "the parser is deterministic on identical byte prefixes (the twin-run oracle relies on it)",
            "std::io::Bytes issues one read call per byte request and retries Interrupted",
        ],
        nofast_too: false,
        min_quick: 100_000,
        min_thorough: 5_000_000,
        sets,
        post: Some(post),
    }
}

fn post(_ctx: &Ctx, rep: &mut Report) {
    for k in ["fault:io-error-surfaced", "fault:twin-outcome-unaffected", "agree:ok-values", "agree:errors"] {
        if rep.counters.get(k).copied().unwrap_or(0) == 0 {
            rep.inconclusive(format!("monitor observed no events of kind {}", k));
        }
    }
}

#[derive(Clone, Debug)]
pub enum Outcome {
    Ok(Value),
    End,
    Err { cat: &'static str, kind: String, has_source: bool, marker: bool },
}

impl Outcome {
    pub fn of(r: Result<Value, lexpr::parse::Error>) -> Outcome {
        match r {
            Ok(v) => Outcome::Ok(v),
            Err(e) => Outcome::of_err(&e),
        }
    }
    pub fn of_err(e: &lexpr::parse::Error) -> Outcome {
        let marker = e.source().map_or(false, |s| s.to_string().contains(MARKER));
        Outcome::Err { cat: cat_name(e), kind: err_kind(e), has_source: e.source().is_some(), marker }
    }
    pub fn same(&self, other: &Outcome) -> bool {
        match (self, other) {
            (Outcome::Ok(a), Outcome::Ok(b)) => veq(a, b, FloatRule::Bits).is_ok(),
            (Outcome::End, Outcome::End) => true,
            (Outcome::Err { cat: c1, kind: k1, has_source: s1, .. }, Outcome::Err { cat: c2, kind: k2, has_source: s2, .. }) => c1 == c2 && k1 == k2 && s1 == s2,
            _ => false,
        }
    }
    pub fn brief(&self) -> String {
        match self {
            Outcome::Ok(v) => format!("Ok({})", dbg_value(v).chars().take(80).collect::<String>()),
            Outcome::End => "End".into(),
            Outcome::Err { cat, kind, .. } => format!("Err[{}:{}]", cat, kind),
        }
    }
    pub fn class(&self) -> String {
        match self {
            Outcome::Ok(_) => "ok".into(),
            Outcome::End => "end".into(),
            Outcome::Err { cat, kind, .. } => format!("{}:{}", cat, kind),
        }
    }
    fn is_injected_io(&self) -> bool {
        matches!(self, Outcome::Err { cat: "io", marker: true, .. })
    }
}

#[derive(Clone, Copy, Debug, PartialEq)]
pub enum Api {
    Value,
    Datum,
    ValueIter,
    DatumIter,
}

const APIS: [Api; 4] = [Api::Value, Api::Datum, Api::ValueIter, Api::DatumIter];

/// Run an API over a reader; returns the item outcomes (single item for the
/// one-shot APIs), with `after` called after each item (to sample counters).
fn run_api<R: std::io::Read>(api: Api, rdr: R, o: Options, mut after: impl FnMut()) -> Vec<Outcome> {
    match api {
        Api::Value => {
            let r = lexpr::from_reader_custom(rdr, o);
            after();
            vec![Outcome::of(r)]
        }
        Api::Datum => {
            let r = lexpr::datum::from_reader_custom(rdr, o).map(|d| d.value().clone());
            after();
            vec![Outcome::of(r)]
        }
        Api::ValueIter | Api::DatumIter => {
            let mut p = Parser::from_reader_custom(rdr, o);
            let mut out = Vec::new();
            for _ in 0..10_000 {
                let r = if api == Api::ValueIter { p.next_value() } else { p.next_datum().map(|d| d.map(|d| d.value().clone())) };
                after();
                match r {
                    Ok(Some(v)) => out.push(Outcome::Ok(v)),
                    Ok(None) => {
                        out.push(Outcome::End);
                        break;
                    }
                    Err(e) => {
                        out.push(Outcome::of_err(&e));
                        break;
                    }
                }
            }
            out
        }
    }
}

fn run_slice(api: Api, bytes: &[u8], o: Options) -> Vec<Outcome> {
    match api {
        Api::Value => vec![Outcome::of(lexpr::from_slice_custom(bytes, o))],
        Api::Datum => vec![Outcome::of(lexpr::datum::from_slice_custom(bytes, o).map(|d| d.value().clone()))],
        _ => {
            let mut p = Parser::from_slice_custom(bytes, o);
            iter_parser(api, &mut p)
        }
    }
}

fn run_str(api: Api, s: &str, o: Options) -> Vec<Outcome> {
    match api {
        Api::Value => vec![Outcome::of(lexpr::from_str_custom(s, o))],
        Api::Datum => vec![Outcome::of(lexpr::datum::from_str_custom(s, o).map(|d| d.value().clone()))],
        _ => {
            let mut p = Parser::from_str_custom(s, o);
            iter_parser(api, &mut p)
        }
    }
}

fn iter_parser<'a, R: lexpr::parse::Read<'a>>(api: Api, p: &mut Parser<R>) -> Vec<Outcome> {
    let mut out = Vec::new();
    for _ in 0..10_000 {
        let r = if api == Api::ValueIter { p.next_value() } else { p.next_datum().map(|d| d.map(|d| d.value().clone())) };
        match r {
            Ok(Some(v)) => out.push(Outcome::Ok(v)),
            Ok(None) => {
                out.push(Outcome::End);
                break;
            }
            Err(e) => {
                out.push(Outcome::of_err(&e));
                break;
            }
        }
    }
    out
}

fn seq_same(a: &[Outcome], b: &[Outcome]) -> bool {
    a.len() == b.len() && a.iter().zip(b).all(|(x, y)| x.same(y))
}

fn seq_brief(a: &[Outcome]) -> String {
    let v: Vec<String> = a.iter().take(6).map(|o| o.brief()).collect();
    format!("[{}{}]", v.join(", "), if a.len() > 6 { ", ..." } else { "" })
}

fn agreement(rep: &mut Report, input: &[u8], q: &Q, rng: &mut Rng, src_tag: &str) {
    let o = q.to_lexpr();
    let base = hash2(hash_bytes(input), q.index() as u64);
    let as_str = std::str::from_utf8(input).ok();
    for api in APIS {
        let reference = run_slice(api, input, o);
        for oc in reference.iter() {
            match oc {
                Outcome::Ok(_) => rep.count("agree:ok-values"),
                Outcome::End => rep.count("agree:end"),
                Outcome::Err { .. } => {
                    rep.count("agree:errors");
                    rep.count(&format!("outcome:{}", oc.class()));
                }
            }
        }
        let mut others: Vec<(String, Vec<Outcome>)> = Vec::new();
        if let Some(s) = as_str {
            others.push(("&str".into(), run_str(api, s, o)));
        }
        for ch in [Chunking::One, Chunking::Random, Chunking::Whole] {
            for intr in [false, true] {
                others.push((format!("stream({:?},interrupts={})", ch, intr), run_api(api, ChunkReader::new(input, ch, intr, rng.fork()), o, || {})));
            }
        }
        for cap in [1usize, 2, 3, 8] {
            others.push((format!("BufReader(cap={})", cap), run_api(api, BufReader::with_capacity(cap, ChunkReader::new(input, Chunking::Random, true, rng.fork())), o, || {})));
        }
        for (i, (name, got)) in others.iter().enumerate() {
            rep.eval();
            rep.distinct(hash2(base, hash2(api as u64, i as u64)));
            if !seq_same(&reference, got) {
                let a = reference.last().map(|x| x.class()).unwrap_or_default();
                let b = got.last().map(|x| x.class()).unwrap_or_default();
                let src_kind = if name.starts_with("&str") { "str" } else { "stream" };
                rep.violation(
                    "agreement",
                    format!("C06:source-mismatch:{:?}:slice={}|{}={}", api, a, src_kind, b),
                    format!("{:?} on {:?} with {}: &[u8] gives {} but {} gives {}", api, show(input), q.describe(), seq_brief(&reference), name, seq_brief(got)),
                    json!({"input_hex": hex(input), "options_index": q.index(), "api": format!("{:?}", api), "source": name, "generator": src_tag}),
                );
                return;
            }
        }
    }
}

fn faults(rep: &mut Report, input: &[u8], q: &Q, _rng: &mut Rng, src_tag: &str) {
    let o = q.to_lexpr();
    let base = hash2(hash_bytes(input), q.index() as u64 + 7777);
    for api in APIS {
        // fault-free twin through the counting reader: outcome of each item and
        // the cumulative number of byte requests when it was returned
        let rdr = CountingReader::new(input);
        let counter = rdr.requests.clone();
        let mut counts: Vec<usize> = Vec::new();
        let twin = run_api(api, rdr, o, || counts.push(counter.get()));
        for k in 0..=input.len() {
            rep.eval();
            rep.distinct(hash2(base, hash2(api as u64, k as u64)));
            let kind = FAULT_KINDS[(k + api as usize) % FAULT_KINDS.len()];
            rep.count(&format!("fault-kind:{:?}", kind));
            // persistent failure, or (alternating) a transient one after which the stream
            // resumes / reports end of input: the first error must surface all the same
            let after = match (k + api as usize) % 3 {
                0 => AfterFault::Forever,
                1 => AfterFault::Resume,
                _ => AfterFault::Eof,
            };
            rep.count(&format!("fault-then:{:?}", after));
            let fr = FaultReader::with_kind(input, k, kind).then(after);
            let errs = fr.errors_returned.clone();
            let got = run_api(api, fr, o, || {});
            // expectation
            let mut expected: Vec<Outcome> = Vec::new();
            let mut expect_io = false;
            for (i, t) in twin.iter().enumerate() {
                if counts[i] > k {
                    expect_io = true;
                    break;
                }
                expected.push(t.clone());
            }
            let mut ok = if expect_io {
                got.len() == expected.len() + 1 && got[..expected.len()].iter().zip(&expected).all(|(a, b)| a.same(b)) && got.last().map_or(false, |l| l.is_injected_io())
            } else {
                seq_same(&got, &expected)
            };
            if !ok && expect_io && got.len() == expected.len() + 1 && got[..expected.len()].iter().zip(&expected).all(|(a, b)| a.same(b)) {
                // The parser asked for byte k, but that alone does not mean the
                // outcome depended on it (it reads ahead after an error is already
                // certain). The property only demands an Io error when the bytes
                // delivered do not determine the outcome. Decide that by
                // perturbation: if every continuation of data[..k] yields the
                // twin's outcome for this item, the outcome was determined and
                // returning it is legitimate.
                let i = expected.len();
                if got[i].same(&twin[i]) && determined(api, &input[..k], o, i, &twin[i]) {
                    ok = true;
                    rep.count("fault:outcome-already-determined-before-fault");
                }
            }
            if expect_io {
                rep.count("fault:io-error-surfaced");
            } else {
                rep.count("fault:twin-outcome-unaffected");
            }
            if errs.get() > 0 {
                rep.count("fault:reader-returned-error");
            }
            if !ok {
                let what = if expect_io {
                    match got.last() {
                        Some(Outcome::Ok(_)) => "swallowed-into-ok",
                        Some(Outcome::End) => "treated-as-end-of-input",
                        Some(Outcome::Err { cat: "eof", .. }) => "treated-as-eof-error",
                        Some(Outcome::Err { cat: "io", marker: false, .. }) => "io-error-lost-source",
                        Some(Outcome::Err { .. }) => "turned-into-syntax-error",
                        None => "no-outcome",
                    }
                } else {
                    "outcome-changed-by-unreached-fault"
                };
                rep.violation(
                    "fault",
                    format!("C06:fault:{}:{:?}", what, api),
                    format!(
                        "{:?} on {:?} with {}: hard read error injected at byte offset {} (twin made {:?} byte requests): expected {}{} but got {}",
                        api,
                        show(input),
                        q.describe(),
                        k,
                        counts,
                        seq_brief(&expected),
                        if expect_io { " then an Io error carrying the injected error" } else { "" },
                        seq_brief(&got)
                    ),
                    json!({"input_hex": hex(input), "options_index": q.index(), "api": format!("{:?}", api), "offset": k, "generator": src_tag}),
                );
                return;
            }
            // conversion to io::Error returns the original error
            if expect_io && got.last().map_or(false, |l| l.is_injected_io()) {
                let fr = FaultReader::with_kind(input, k, kind);
                if let Api::Value = api {
                    if let Err(e) = lexpr::from_reader_custom(fr, o) {
                        let ioe: std::io::Error = e.into();
                        rep.eval();
                        if ioe.kind() != kind || !ioe.to_string().contains(MARKER) {
                            rep.violation("fault", "C06:fault:io-conversion-loses-error".into(), format!("io::Error::from(parse error) is {:?}, not the injected error", ioe), json!({"input_hex": hex(input), "offset": k}));
                            return;
                        }
                    }
                }
            }
        }
    }
}

// ------------------------------------------------------ named entry points
//
// Every convenience entry point is documented as its `_custom` sibling with a
// named option set. All of them must give the outcome the byte-slice `_custom`
// call gives on the same bytes (the source-independence clause covers the
// named functions as much as the customisable ones).

fn check_error_predicates(rep: &mut Report, e: &lexpr::parse::Error, input: &[u8], via: &str) -> bool {
    use lexpr::parse::error::Category;
    let c = e.classify();
    let ok = e.is_io() == (c == Category::Io) && e.is_syntax() == (c == Category::Syntax) && e.is_eof() == (c == Category::Eof) && (e.is_io() as u8 + e.is_syntax() as u8 + e.is_eof() as u8) == 1;
    let dbg = format!("{:?}", e);
    let disp = e.to_string();
    rep.eval();
    if !ok || dbg.is_empty() || disp.is_empty() {
        rep.violation(
            "entry-points",
            "C06:error-predicates-disagree-with-classify".into(),
            format!("{} on {:?}: classify()={:?} but is_io={} is_syntax={} is_eof={}; Debug={:?}", via, show(input), c, e.is_io(), e.is_syntax(), e.is_eof(), dbg),
            json!({"input_hex": hex(input), "via": via}),
        );
        return false;
    }
    true
}

#[allow(deprecated)]
fn entry_points(rep: &mut Report, input: &[u8], rng: &mut Rng, src_tag: &str) {
    let as_str = std::str::from_utf8(input).ok();
    for elisp in [false, true] {
        let q = if elisp { Q::elisp() } else { Q::default_() };
        let o = q.to_lexpr();
        let reference = Outcome::of(lexpr::from_slice_custom(input, o));
        rep.count(&format!("entry:{}:{}", if elisp { "elisp" } else { "default" }, reference.class().split(':').next().unwrap_or("")));
        let mut got: Vec<(&'static str, Outcome)> = Vec::new();
        let rdr = |rng: &mut Rng| ChunkReader::new(input, Chunking::Random, true, rng.fork());
        let dv = |r: Result<lexpr::Datum, lexpr::parse::Error>| Outcome::of(r.map(|d| d.value().clone()));
        if elisp {
            got.push(("lexpr::from_slice_elisp", Outcome::of(lexpr::parse::from_slice_elisp(input))));
            got.push(("lexpr::from_reader_elisp", Outcome::of(lexpr::parse::from_reader_elisp(rdr(rng)))));
            got.push(("lexpr::datum::from_slice_elisp", dv(lexpr::datum::from_slice_elisp(input))));
            got.push(("lexpr::datum::from_reader_elisp", dv(lexpr::datum::from_reader_elisp(rdr(rng)))));
            got.push(("lexpr::from_slice_custom(Options::elisp())", Outcome::of(lexpr::from_slice_custom(input, Options::elisp()))));
            if let Some(s) = as_str {
                got.push(("lexpr::from_str_elisp", Outcome::of(lexpr::parse::from_str_elisp(s))));
                got.push(("lexpr::datum::from_str_elisp", dv(lexpr::datum::from_str_elisp(s))));
            }
        } else {
            got.push(("lexpr::from_slice", Outcome::of(lexpr::from_slice(input))));
            got.push(("lexpr::from_reader", Outcome::of(lexpr::from_reader(rdr(rng)))));
            got.push(("lexpr::datum::from_slice", dv(lexpr::datum::from_slice(input))));
            got.push(("lexpr::datum::from_reader", dv(lexpr::datum::from_reader(rdr(rng)))));
            got.push(("lexpr::from_slice_custom(Options::default())", Outcome::of(lexpr::from_slice_custom(input, Options::default()))));
            // the parser constructors without options, with the current and the deprecated method names
            let one = |r: Result<Value, lexpr::parse::Error>, end: Result<(), lexpr::parse::Error>| Outcome::of(r.and_then(|v| end.map(|_| v)));
            {
                let mut p = Parser::from_slice(input);
                let r = p.expect_value();
                let e = if r.is_ok() { p.expect_end() } else { Ok(()) };
                got.push(("Parser::from_slice.expect_value+expect_end", one(r, e)));
            }
            {
                let mut p = Parser::from_slice(input);
                let r = p.parse_value();
                let e = if r.is_ok() { p.end() } else { Ok(()) };
                got.push(("Parser::from_slice.parse_value+end (deprecated names)", one(r, e)));
            }
            {
                let mut p = Parser::from_reader(rdr(rng));
                let r = p.expect_value();
                let e = if r.is_ok() { p.expect_end() } else { Ok(()) };
                got.push(("Parser::from_reader.expect_value+expect_end", one(r, e)));
            }
            {
                // parse() is the deprecated name of next_value(): None at end of input
                let mut a = Parser::from_slice(input);
                let mut b = Parser::from_slice_custom(input, o);
                let mut same = true;
                for _ in 0..50 {
                    let (x, y) = (a.parse(), b.next_value());
                    let (ox, oy) = (x.map(|v| v.map_or(Outcome::End, Outcome::Ok)).unwrap_or_else(|e| Outcome::of_err(&e)), y.map(|v| v.map_or(Outcome::End, Outcome::Ok)).unwrap_or_else(|e| Outcome::of_err(&e)));
                    same &= ox.same(&oy);
                    if !same || !matches!(ox, Outcome::Ok(_)) {
                        break;
                    }
                }
                rep.eval();
                if !same {
                    rep.violation("entry-points", "C06:entry-point-differs:Parser::parse".into(), format!("Parser::from_slice(..).parse() and Parser::from_slice_custom(.., default).next_value() diverge on {:?}", show(input)), json!({"input_hex": hex(input), "generator": src_tag}));
                    return;
                }
            }
            if let Some(s) = as_str {
                got.push(("lexpr::from_str", Outcome::of(lexpr::from_str(s))));
                got.push(("lexpr::datum::from_str", dv(lexpr::datum::from_str(s))));
                let mut p = Parser::from_str(s);
                let r = p.expect_value();
                let e = if r.is_ok() { p.expect_end() } else { Ok(()) };
                got.push(("Parser::from_str.expect_value+expect_end", one(r, e)));
            }
        }
        for (name, oc) in got.iter() {
            rep.eval();
            rep.distinct(hash2(hash_bytes(input), hash_bytes(name.as_bytes())));
            if !reference.same(oc) {
                rep.violation(
                    "entry-points",
                    format!("C06:entry-point-differs:{}:custom={}|named={}", name, reference.class(), oc.class()),
                    format!("on {:?}: from_slice_custom with the {} option set gives {} but {} gives {}", show(input), if elisp { "Emacs Lisp" } else { "default" }, reference.brief(), name, oc.brief()),
                    json!({"input_hex": hex(input), "entry": name, "generator": src_tag}),
                );
                return;
            }
        }
        if let Err(e) = lexpr::from_slice_custom(input, o) {
            if !check_error_predicates(rep, &e, input, "from_slice_custom") {
                return;
            }
        }
    }
    // an injected stream failure through the named stream entry points: same
    // outcome as the `_custom` sibling under the same fault (which the
    // fault-every-offset set judges against the twin-run oracle)
    let k = rng.below(input.len() + 1);
    let (od, oe) = (Q::default_().to_lexpr(), Q::elisp().to_lexpr());
    let dv = |r: Result<lexpr::Datum, lexpr::parse::Error>| r.map(|d| d.value().clone());
    for (name, r, want) in [
        ("lexpr::from_reader", lexpr::from_reader(FaultReader::new(input, k)), lexpr::from_reader_custom(FaultReader::new(input, k), od)),
        ("lexpr::from_reader_elisp", lexpr::parse::from_reader_elisp(FaultReader::new(input, k)), lexpr::from_reader_custom(FaultReader::new(input, k), oe)),
        ("lexpr::datum::from_reader", dv(lexpr::datum::from_reader(FaultReader::new(input, k))), dv(lexpr::datum::from_reader_custom(FaultReader::new(input, k), od))),
        ("lexpr::datum::from_reader_elisp", dv(lexpr::datum::from_reader_elisp(FaultReader::new(input, k))), dv(lexpr::datum::from_reader_custom(FaultReader::new(input, k), oe))),
    ] {
        rep.eval();
        if let Err(e) = &r {
            if !check_error_predicates(rep, e, input, name) {
                return;
            }
            if e.is_io() {
                rep.count("entry:fault-surfaced-as-io");
            }
        }
        let (a, b) = (Outcome::of(r), Outcome::of(want));
        if !a.same(&b) || a.is_injected_io() != b.is_injected_io() {
            rep.violation(
                "entry-points",
                format!("C06:fault:named-entry-point-differs:{}", name),
                format!("{} on {:?} with a hard read error at offset {}: {} but the _custom sibling gives {}", name, show(input), k, a.brief(), b.brief()),
                json!({"input_hex": hex(input), "offset": k, "entry": name}),
            );
            return;
        }
    }
}

/// The Serde text layer's stream entry points delegate to the stream parser:
/// a read failure must surface through them as an Io-category error that
/// carries the injected error (source chain) and converts back into it.
#[cfg(feature = "full")]
fn serde_stream_faults(rep: &mut Report, input: &[u8], rng: &mut Rng) {
    use serde_lexpr::error::Category;
    let k = rng.below(input.len() + 1);
    let kind = *rng.pick(FAULT_KINDS);
    for elisp in [false, true] {
        let o = if elisp { Q::elisp().to_lexpr() } else { Q::default_().to_lexpr() };
        let want = Outcome::of(lexpr::from_reader_custom(FaultReader::with_kind(input, k, kind), o));
        let name = if elisp { "serde_lexpr::from_reader_custom(elisp)" } else { "serde_lexpr::from_reader" };
        let run = || {
            if elisp {
                serde_lexpr::from_reader_custom::<Vec<i64>>(FaultReader::with_kind(input, k, kind), o)
            } else {
                serde_lexpr::from_reader::<Vec<i64>>(FaultReader::with_kind(input, k, kind))
            }
        };
        rep.eval();
        let got = crate::mon::panics::guarded(run);
        let got = match got {
            Ok(g) => g,
            Err(p) => {
                rep.violation("serde-stream", format!("C06:serde-stream:panic:{}", p.sig()), format!("{} on {:?} with a read error at {}: {}", name, show(input), k, p.short()), json!({"input_hex": hex(input), "offset": k}));
                return;
            }
        };
        let mut fail = |what: &str, detail: String, rep: &mut Report| {
            rep.violation("serde-stream", format!("C06:serde-stream:{}", what), format!("{} on {:?} with a hard read error ({:?}) at offset {}: {}", name, show(input), kind, k, detail), json!({"input_hex": hex(input), "offset": k, "elisp": elisp}));
        };
        match (&want, &got) {
            (Outcome::Err { cat: "io", .. }, Err(e)) => {
                rep.count("serde-stream:io-surfaced");
                // category, source chain, conversion
                if e.classify() != Category::Io {
                    fail("io-error-not-io-category", format!("classify() = {:?}", e.classify()), rep);
                    return;
                }
                let mut chain = Vec::new();
                let mut cur: Option<&(dyn std::error::Error + 'static)> = Some(e);
                while let Some(c) = cur {
                    chain.push(c.to_string());
                    cur = c.source();
                }
                if !chain.iter().any(|m| m.contains(MARKER)) {
                    fail("io-error-lost-source", format!("source chain {:?} does not carry the injected error", chain), rep);
                    return;
                }
                if e.location().is_some() && e.to_string().is_empty() {
                    fail("empty-display", String::new(), rep);
                    return;
                }
                let _ = format!("{:?}", e);
                let conv = crate::mon::panics::guarded(|| {
                    let e2 = run().err().expect("same reader, same outcome");
                    std::io::Error::from(e2)
                });
                rep.eval();
                match conv {
                    Ok(ioe) => {
                        if ioe.kind() != kind || !ioe.to_string().contains(MARKER) {
                            fail("io-conversion-loses-error", format!("io::Error::from(error) is {:?}, not the injected error", ioe), rep);
                            return;
                        }
                        rep.count("serde-stream:io-conversion-ok");
                    }
                    Err(p) => {
                        fail(&format!("io-conversion-panics:{}", p.sig()), format!("io::Error::from(error) panics: {}", p.short()), rep);
                        return;
                    }
                }
            }
            (Outcome::Err { cat: "io", .. }, Ok(v)) => {
                fail("swallowed-into-ok", format!("Ok({:?})", v), rep);
                return;
            }
            (Outcome::Ok(a), got) => {
                // the parse was not affected by the fault: same as deserializing the parsed value
                let direct = serde_lexpr::from_value::<Vec<i64>>(a);
                let same = match (&direct, got) {
                    (Ok(x), Ok(y)) => x == y,
                    (Err(_), Err(e)) => e.classify() == Category::Data,
                    _ => false,
                };
                if !same {
                    fail("value-differs", format!("from_value on the parsed value gives {:?} but the stream entry point gives {:?}", direct.map_err(|e| e.to_string()), got.as_ref().map_err(|e| e.to_string())), rep);
                    return;
                }
                rep.count("serde-stream:unaffected");
            }
            (Outcome::Err { cat, .. }, Err(e)) => {
                let c = match e.classify() {
                    Category::Io => "io",
                    Category::Syntax => "syntax",
                    Category::Eof => "eof",
                    Category::Data => "data",
                };
                if c != *cat {
                    fail("category-differs", format!("lexpr gives {} but serde_lexpr classifies {}", cat, c), rep);
                    return;
                }
                // non-io conversions: Syntax -> InvalidData, Eof -> UnexpectedEof (documented)
                let loc_ok = e.location().is_some();
                let conv = crate::mon::panics::guarded(|| std::io::Error::from(run().err().expect("same outcome")));
                rep.eval();
                match conv {
                    Ok(ioe) => {
                        let want_kind = if c == "eof" { std::io::ErrorKind::UnexpectedEof } else { std::io::ErrorKind::InvalidData };
                        if ioe.kind() != want_kind || !loc_ok {
                            fail("conversion-kind", format!("io::Error::from gives kind {:?} for a {} error (location present: {})", ioe.kind(), c, loc_ok), rep);
                            return;
                        }
                        rep.count("serde-stream:non-io-conversion-ok");
                    }
                    Err(p) => {
                        fail(&format!("io-conversion-panics:{}", p.sig()), p.short(), rep);
                        return;
                    }
                }
            }
            (w, g) => {
                fail("outcome-differs", format!("lexpr::from_reader_custom gives {} but the Serde entry point gives {:?}", w.brief(), g.as_ref().map_err(|e| e.to_string())), rep);
                return;
            }
        }
    }
}

#[cfg(not(feature = "full"))]
fn serde_stream_faults(_rep: &mut Report, _input: &[u8], _rng: &mut Rng) {}

const CONTINUATIONS: &[&[u8]] = &[b"", b" ", b"a", b")", b"]", b"\"", b"0", b";", b"\\", b"#", b"\xff", b"(", b".", b"\n", b"e1", b"|"];

/// Do all continuations of `prefix` give `want` as outcome of item `i`?
fn determined(api: Api, prefix: &[u8], o: Options, i: usize, want: &Outcome) -> bool {
    for c in CONTINUATIONS {
        let mut data = prefix.to_vec();
        data.extend_from_slice(c);
        let items = run_slice(api, &data, o);
        match items.get(i) {
            Some(x) if x.same(want) => {}
            _ => return false,
        }
    }
    true
}

pub fn gen_input(rng: &mut Rng, tb: &Tables, cfg: &GenCfg, max_len: usize) -> (Vec<u8>, Q, &'static str) {
    loop {
        let (bytes, q, tag): (Vec<u8>, Q, &'static str) = match rng.below(10) {
            0 | 1 => {
                let v = gen::gen_value(rng, cfg, tb, 2);
                (lexpr::to_string(&v).unwrap().into_bytes(), Q::default_(), "printer-default")
            }
            2 => {
                let v = gen::gen_value(rng, cfg, tb, 2);
                (lexpr::to_string_custom(&v, lexpr::print::Options::elisp()).unwrap().into_bytes(), Q::elisp(), "printer-elisp")
            }
            3 | 4 => {
                let lang = if rng.bool() { Lang::Scheme } else { Lang::Elisp };
                let lc = LayoutCfg { lang, trivia: TriviaSet::Basic, alt_spellings: true, brackets_as_list: lang == Lang::Scheme };
                let n = rng.range(1, 3);
                let mut s = String::new();
                for _ in 0..n {
                    let v = gen::gen_value(rng, cfg, tb, 3);
                    s.push_str(&text::layout(rng, &lc, &v));
                    s.push(' ');
                }
                (s.into_bytes(), if lang == Lang::Scheme { Q::default_() } else { Q::elisp() }, "layout")
            }
            5 | 6 => (text::token_soup(rng, 8), Q::from_index(rng.below(N_Q)), "token-soup"),
            7 => {
                let mut b = text::token_soup(rng, 6);
                text::corrupt(rng, &mut b);
                (b, Q::from_index(rng.below(N_Q)), "corrupted-utf8")
            }
            _ => {
                let v = gen::gen_value(rng, cfg, tb, 2);
                let t = lexpr::to_string(&v).unwrap();
                (text::mutate(rng, t.as_bytes()), if rng.bool() { Q::default_() } else { Q::from_index(rng.below(N_Q)) }, "mutated")
            }
        };
        let mut bytes = bytes;
        if rng.chance(1, 12) {
            // what a transport or an editor may put in front of / behind the text
            const LEADINS: &[&[u8]] = &[b"\xEF\xBB\xBF", b"\xFE\xFF", b"\xFF\xFE", b"\xEF\xBB", b"\0", b"\r\n", b"\x0C", b"\x0B", b"\xC2\xA0", b"\xE2\x80\xA8", b"\x1A", b"#!r6rs\n", b"\xEF\xBB\xBF\xEF\xBB\xBF"];
            let l = *rng.pick(LEADINS);
            if rng.chance(3, 4) {
                let mut b = l.to_vec();
                b.extend_from_slice(&bytes);
                bytes = b;
            } else {
                bytes.extend_from_slice(l);
            }
        }
        if bytes.len() <= max_len {
            return (bytes, q, tag);
        }
    }
}

pub fn sets(ctx: &Ctx) -> Vec<CaseSet> {
    let tb = Arc::new(Tables::new());
    let mut cfg = GenCfg::default_dialect();
    cfg.max_depth = 3;
    cfg.max_items = 4;
    cfg.max_str = 6;
    cfg.name_ok = gen::plain_name;
    let cfg = Arc::new(cfg);
    let mut out = Vec::new();

    let (tb1, cfg1) = (tb.clone(), cfg.clone());
    let max1 = ctx.size(200, 2000) as usize;
    out.push(CaseSet::new(
        "agreement",
        ctx.size(100_000, 3_000_000),
        Box::new(move |rep, rng, _| {
            let (input, q, tag) = gen_input(rng, &tb1, &cfg1, max1);
            rep.count(&format!("inputs:{}", tag));
            agreement(rep, &input, &q, rng, tag);
            sample_if_room(rep, || json!({"clause": "agreement", "input": show(&input), "options": q.describe(), "generator": tag}));
        }),
    ));

    let (tb2, cfg2) = (tb.clone(), cfg.clone());
    let max2 = ctx.size(64, 512) as usize;
    out.push(CaseSet::new(
        "fault-every-offset",
        ctx.size(40_000, 1_200_000),
        Box::new(move |rep, rng, _| {
            let (input, q, tag) = gen_input(rng, &tb2, &cfg2, max2);
            rep.count(&format!("fault-inputs:{}", tag));
            rep.max("max_fault_input_len", input.len() as u64);
            faults(rep, &input, &q, rng, tag);
            sample_if_room(rep, || json!({"clause": "fault at every offset", "input": show(&input), "offsets": input.len() + 1, "options": q.describe()}));
        }),
    ));
    // long tokens (2^k-1, 2^k, 2^k+1 bytes) through all sources and chunkings
    out.push(CaseSet::new(
        "long-tokens-agreement",
        ctx.size(360, 9_000),
        Box::new(move |rep, rng, case| {
            let ks = [127usize, 128, 129, 255, 256, 257, 1023, 1024, 1025, 4095, 4096, 4097, 8191, 8192, 8193];
            let k = ks[(case as usize) % ks.len()];
            let body: String = (0..k).map(|i| if i % 61 == 60 { 'λ' } else { (b'a' + (i % 26) as u8) as char }).collect();
            let elisp = rng.bool();
            let tok = match (case as usize / ks.len()) % 6 {
                0 => format!("\"{}\"", body),
                1 => format!("\"\\n{}\"", body),
                2 => body.clone(),
                3 => format!("#:{}", body),
                4 => format!("#u8({})", (0..k / 2).map(|i| (i % 256).to_string()).collect::<Vec<_>>().join(" ")),
                _ => format!("{}{}", "9".repeat(k.min(600)), if rng.bool() { ".5e3" } else { "" }),
            };
            let input = match rng.below(3) {
                0 => tok,
                1 => format!("({} x)", tok),
                _ => format!("#({} {}", tok, if rng.bool() { ")" } else { "" }),
            };
            let q = if elisp { Q::elisp() } else { Q::default_() };
            rep.max("max_long_token_input", input.len() as u64);
            agreement(rep, input.as_bytes(), &q, rng, "long-token");
        }),
    ));

    let (tb3, cfg3) = (tb.clone(), cfg.clone());
    out.push(CaseSet::new(
        "named-entry-points",
        ctx.size(30_000, 1_000_000),
        Box::new(move |rep, rng, _| {
            let (input, _q, tag) = gen_input(rng, &tb3, &cfg3, 300);
            entry_points(rep, &input, rng, tag);
            serde_stream_faults(rep, &input, rng);
        }),
    ));
    out
}
