//! C10 -- the location-tracking parse API agrees with the plain value API.
//! (Also hosts the shared datum walker used by C11.)

use crate::gen::{GenCfg, Tables};
use crate::model::cmp::{veq, FloatRule};
use crate::mon::io::{ChunkReader, Chunking};
use crate::opts::{Q, N_Q};
use crate::props::common::*;
use crate::props::PropDef;
use crate::report::{hex, show, Report};
use crate::rng::{hash2, hash_bytes, Rng};
use crate::run::{CaseSet, Ctx};
use lexpr::datum::Ref;
use lexpr::parse::Read;
use lexpr::{Datum, Parser, Value};
use serde_json::json;
use std::sync::Arc;

pub fn def() -> PropDef {
    PropDef {
        id: "C10",
        level: "exploration",
        rule: "cases = (input, parser options, source): token soup, layout-printer output (multi-datum, brackets, Emacs syntax, dotted tails, quote forms), printer output, mutated and corrupted text x option sets drawn from all 1536 x {&str, &[u8], stream}. For each: the item sequence of next_value vs next_datum (values, index/category/message/location of the first error, position of end of input), Datum::value() vs Value::from(datum), and for EVERY sub-datum reachable through list_iter / vector_iter / as_pair the Ref accessors vs the Value accessors (incl. the None/tail/None protocol, peek, is_empty). non-trivial = one item pair or one sub-datum judged; distinct = hash of (input, options, source)",
        assumptions: &["same source for both APIs: error locations are compared within one source only"],
        nofast_too: false,
        min_quick: 300_000,
        min_thorough: 10_000_000,
        sets,
        post: Some(post),
    }
}

fn post(_ctx: &Ctx, rep: &mut Report) {
    for k in ["items:ok-pairs", "items:error-pairs", "walk:sub-datums", "walk:dotted-protocol"] {
        if rep.counters.get(k).copied().unwrap_or(0) == 0 {
            rep.inconclusive(format!("monitor observed no events of kind {}", k));
        }
    }
}

fn same(a: &Value, b: &Value) -> bool {
    veq(a, b, FloatRule::Bits).is_ok()
}

/// Walk a datum through its Ref accessors, comparing with the Value accessors.
/// Calls `visit(ref, depth, parent_span, prev_sibling_end, role)` for every reachable sub-datum.
pub fn walk<'a>(r: Ref<'a>, depth: usize, problems: &mut Vec<String>, count: &mut u64, dotted: &mut u64, visit: &mut dyn FnMut(Ref<'a>, Option<Ref<'a>>, Option<Ref<'a>>, &'static str)) {
    *count += 1;
    if depth > 300 || problems.len() > 3 {
        return;
    }
    let v: &Value = r.value();
    // Deref / AsRef expose the same value
    if !std::ptr::eq(&*r as *const Value, v as *const Value) || !std::ptr::eq(AsRef::<Value>::as_ref(&r) as *const Value, v as *const Value) {
        problems.push("Deref/AsRef of Ref is not the referenced value".into());
    }
    // From<Ref> for Datum clones value and span
    if depth < 3 {
        let d2: Datum = Datum::from(r);
        if !same(d2.value(), v) || d2.span() != r.span() {
            problems.push("Datum::from(ref) differs from the referenced datum".into());
        }
    }
    // as_pair
    match (r.as_pair(), v.as_pair()) {
        (Some((a, d)), Some((va, vd))) => {
            if !std::ptr::eq(a.value(), va) || !std::ptr::eq(d.value(), vd) {
                problems.push("as_pair exposes different car/cdr than Value::as_pair".into());
            }
        }
        (None, None) => {}
        (x, y) => problems.push(format!("as_pair is {} but Value::as_pair is {}", if x.is_some() { "Some" } else { "None" }, if y.is_some() { "Some" } else { "None" })),
    }
    // vector_iter
    match (r.vector_iter(), v.as_slice()) {
        (Some(it), Some(xs)) => {
            let items: Vec<Ref<'a>> = it.collect();
            if items.len() != xs.len() {
                problems.push(format!("vector_iter yields {} items, slice has {}", items.len(), xs.len()));
            } else {
                let mut prev: Option<Ref<'a>> = None;
                for (i, (item, x)) in items.iter().zip(xs.iter()).enumerate() {
                    if !std::ptr::eq(item.value(), x) {
                        problems.push(format!("vector_iter item {} is not slice element {}", i, i));
                    }
                    visit(*item, Some(r), prev, "vector-element");
                    walk(*item, depth + 1, problems, count, dotted, visit);
                    prev = Some(*item);
                }
            }
        }
        (None, None) => {}
        (x, _) => problems.push(format!("vector_iter is {} for a {}", if x.is_some() { "Some" } else { "None" }, crate::gen::kind_name(v))),
    }
    // list_iter: same protocol as Value::list_iter
    match (r.list_iter(), v.list_iter()) {
        (Some(mut it), Some(mut vit)) => {
            let mut prev: Option<Ref<'a>> = None;
            let mut steps = 0usize;
            let mut phase = 0; // 0 elements, 1 after first None (maybe tail), 2 after tail
            loop {
                steps += 1;
                if steps > 2_000_000 {
                    problems.push("list_iter does not end".into());
                    break;
                }
                if it.is_empty() != vit.is_empty() {
                    problems.push(format!("list_iter.is_empty()={} but Value list_iter.is_empty()={} at step {}", it.is_empty(), vit.is_empty(), steps));
                    break;
                }
                match (it.peek().map(|p| p.value() as *const Value), vit.peek().map(|p| p as *const Value)) {
                    (a, b) if a == b => {}
                    _ => {
                        problems.push(format!("list_iter.peek() disagrees with Value list_iter.peek() at step {}", steps));
                        break;
                    }
                }
                match (it.next(), vit.next()) {
                    (Some(item), Some(x)) => {
                        if !std::ptr::eq(item.value(), x) {
                            problems.push(format!("list_iter item at step {} is not the value's item", steps));
                            break;
                        }
                        let role = if phase == 1 { "dotted-tail" } else { "list-element" };
                        if phase == 1 {
                            *dotted += 1;
                            phase = 2;
                        }
                        visit(item, Some(r), prev, role);
                        // recurse (iteratively long lists: recursion is per element, depth+1)
                        walk(item, depth + 1, problems, count, dotted, visit);
                        prev = Some(item);
                    }
                    (None, None) => {
                        if phase == 0 && !it.is_empty() {
                            phase = 1; // a dotted tail follows
                        } else {
                            break;
                        }
                    }
                    (a, b) => {
                        problems.push(format!("list_iter yields {} where Value list_iter yields {} at step {}", if a.is_some() { "Some" } else { "None" }, if b.is_some() { "Some" } else { "None" }, steps));
                        break;
                    }
                }
            }
        }
        (None, None) => {}
        (x, _) => problems.push(format!("list_iter is {} for a {}", if x.is_some() { "Some" } else { "None" }, crate::gen::kind_name(v))),
    }
}

#[derive(Debug)]
enum Item {
    Val(Value),
    End,
    Err(String, &'static str),
}

/// Both APIs on their own parser over the same input, called in lock-step and
/// continuing after errors; after every pair of calls the two nesting budgets
/// (observation hook) must both be back at their initial value.
fn lockstep_after_errors<'a, R1: Read<'a>, R2: Read<'a>>(mut pv: Parser<R1>, mut pd: Parser<R2>, calls: usize) -> Option<String> {
    let mut errors = 0;
    for i in 0..calls {
        let a = pv.next_value();
        let b = pd.next_datum().map(|o| o.map(|d| d.value().clone()));
        let (bv, bd) = (crate::hooks::budget(&pv), crate::hooks::budget(&pd));
        if bv != bd {
            return Some(format!("after call #{} ({} errors so far) the value parser's nesting budget is {} but the datum parser's is {}", i + 1, errors, bv, bd));
        }
        match (&a, &b) {
            (Ok(Some(x)), Ok(Some(y))) => {
                if !same(x, y) {
                    return Some(format!("call #{} after {} errors: next_value gives {} but next_datum gives {}", i + 1, errors, dbg_value(x), dbg_value(y)));
                }
            }
            (Ok(None), Ok(None)) => return None,
            (Err(e1), Err(e2)) => {
                errors += 1;
                if err_kind(e1) != err_kind(e2) || cat_name(e1) != cat_name(e2) {
                    return Some(format!("call #{}: next_value fails with '{}' but next_datum with '{}'", i + 1, e1, e2));
                }
            }
            _ => {
                return Some(format!(
                    "call #{} after {} errors: next_value gives {} but next_datum gives {}",
                    i + 1,
                    errors,
                    match &a { Ok(Some(x)) => format!("Ok({})", dbg_value(x)), Ok(None) => "End".into(), Err(e) => format!("Err({})", e) },
                    match &b { Ok(Some(x)) => format!("Ok({})", dbg_value(x)), Ok(None) => "End".into(), Err(e) => format!("Err({})", e) }
                ))
            }
        }
    }
    None
}

fn values_seq<'a, R: Read<'a>>(mut p: Parser<R>, cap: usize) -> Vec<Item> {
    let mut out = Vec::new();
    for _ in 0..cap {
        match p.next_value() {
            Ok(Some(v)) => out.push(Item::Val(v)),
            Ok(None) => {
                out.push(Item::End);
                break;
            }
            Err(e) => {
                out.push(Item::Err(e.to_string(), cat_name(&e)));
                break;
            }
        }
    }
    out
}

fn datums_seq<'a, R: Read<'a>>(mut p: Parser<R>, cap: usize) -> (Vec<Item>, Vec<Datum>) {
    let mut out = Vec::new();
    let mut ds = Vec::new();
    for _ in 0..cap {
        match p.next_datum() {
            Ok(Some(d)) => {
                out.push(Item::Val(d.value().clone()));
                ds.push(d);
            }
            Ok(None) => {
                out.push(Item::End);
                break;
            }
            Err(e) => {
                out.push(Item::Err(e.to_string(), cat_name(&e)));
                break;
            }
        }
    }
    (out, ds)
}

fn strip_loc(s: &str) -> &str {
    match s.find(" at line ") {
        Some(i) => &s[..i],
        None => s,
    }
}

pub fn compare_apis(rep: &mut Report, input: &[u8], q: &Q, tag: &str, rng: &mut Rng) {
    let o = q.to_lexpr();
    let cap = input.len() + 3;
    let base = hash2(hash_bytes(input), q.index() as u64);
    let mut sources: Vec<(&'static str, Vec<Item>, (Vec<Item>, Vec<Datum>))> = vec![
        ("slice", values_seq(Parser::from_slice_custom(input, o), cap), datums_seq(Parser::from_slice_custom(input, o), cap)),
        (
            "stream",
            values_seq(Parser::from_reader_custom(ChunkReader::new(input, Chunking::Random, true, rng.fork()), o), cap),
            datums_seq(Parser::from_reader_custom(ChunkReader::new(input, Chunking::One, false, rng.fork()), o), cap),
        ),
    ];
    if let Ok(s) = std::str::from_utf8(input) {
        sources.push(("str", values_seq(Parser::from_str_custom(s, o), cap), datums_seq(Parser::from_str_custom(s, o), cap)));
    }
    // lock-step continuation after errors (slice and stream)
    {
        rep.eval();
        let calls = (input.len() + 3).min(160);
        let r1 = lockstep_after_errors(Parser::from_slice_custom(input, o), Parser::from_slice_custom(input, o), calls);
        let r2 = lockstep_after_errors(Parser::from_reader_custom(input, o), Parser::from_reader_custom(input, o), calls);
        if let Some(msg) = r1.or(r2) {
            let key: String = msg.chars().filter(|c| !c.is_ascii_digit()).take(40).collect();
            rep.violation(
                "lockstep-after-errors",
                format!("C10:lockstep:{}", key.trim()),
                format!("input {:?} with {}: {}", show(input), q.describe(), msg),
                json!({"input_hex": hex(input), "options_index": q.index(), "generator": tag}),
            );
            return;
        }
        rep.count("lockstep:histories");
    }
    for (si, (src, vs, (ds, datums))) in sources.iter().enumerate() {
        rep.distinct(hash2(base, si as u64));
        let replay = json!({"input_hex": hex(input), "options_index": q.index(), "source": src, "generator": tag});
        // item by item
        let n = vs.len().max(ds.len());
        for i in 0..n {
            rep.eval();
            let (a, b) = (vs.get(i), ds.get(i));
            let (ok, what) = match (a, b) {
                (Some(Item::Val(x)), Some(Item::Val(y))) => {
                    rep.count("items:ok-pairs");
                    (same(x, y), "value-differs")
                }
                (Some(Item::End), Some(Item::End)) => {
                    rep.count("items:end-pairs");
                    (true, "")
                }
                (Some(Item::Err(m1, c1)), Some(Item::Err(m2, c2))) => {
                    rep.count("items:error-pairs");
                    if c1 != c2 || strip_loc(m1) != strip_loc(m2) {
                        (false, "error-kind-differs")
                    } else if m1 != m2 {
                        (false, "error-location-differs")
                    } else {
                        (true, "")
                    }
                }
                _ => (false, "outcome-kind-differs"),
            };
            if !ok {
                rep.violation(
                    "api-agreement",
                    format!("C10:{}:{}", what, src),
                    format!("{} source, item {} of {:?} with {}: next_value gives {:?} but next_datum gives {:?}", src, i, show(input), q.describe(), a.map(brief), b.map(brief)),
                    replay.clone(),
                );
                return;
            }
        }
        // conversions and accessor walk
        for d in datums.iter() {
            rep.eval();
            let v1 = d.value().clone();
            let v2: Value = Value::from(d.clone());
            if !same(&v1, &v2) {
                rep.violation("conversion", "C10:value-vs-from-datum".into(), format!("Datum::value() = {} but Value::from(datum) = {}", dbg_value(&v1), dbg_value(&v2)), replay.clone());
                return;
            }
            if d.clone() != *d || d.as_ref().value() as *const Value != d.value() as *const Value || d.as_ref().span() != d.span() {
                rep.violation("conversion", "C10:datum-clone-or-as_ref".into(), "Datum clone / as_ref inconsistent".into(), replay.clone());
                return;
            }
            let mut problems = Vec::new();
            let mut count = 0u64;
            let mut dotted = 0u64;
            // Datum-level shortcuts agree with the Ref ones
            if d.list_iter().is_some() != d.as_ref().list_iter().is_some() || d.vector_iter().is_some() != d.as_ref().vector_iter().is_some() {
                problems.push("Datum::list_iter/vector_iter disagree with Ref's".to_string());
            }
            let r = crate::mon::panics::guarded(|| {
                walk(d.as_ref(), 0, &mut problems, &mut count, &mut dotted, &mut |_, _, _, _| {});
            });
            rep.count_n("walk:sub-datums", count);
            rep.count_n("walk:dotted-protocol", dotted);
            rep.evals(count);
            if let Err(p) = r {
                if p.in_library() {
                    rep.violation("walk", format!("C10:walk-panic:{}", p.sig()), format!("walking the datum parsed from {:?} panicked: {}", show(input), p.short()), replay.clone());
                } else {
                    rep.inconclusive(format!("harness panic: {}", p.short()));
                }
                return;
            }
            if let Some(pr) = problems.first() {
                let key: String = pr.chars().take_while(|c| !c.is_ascii_digit()).take(50).collect();
                rep.violation("walk", format!("C10:walk:{}", key.trim()), format!("datum parsed from {:?} ({} source, {}): {}", show(input), src, q.describe(), pr), replay.clone());
                return;
            }
        }
    }
    sample_if_room(rep, || json!({"input": show(input), "options": q.describe(), "generator": tag, "items": sources[0].1.len()}));
}

fn brief(i: &Item) -> String {
    match i {
        Item::Val(v) => format!("Ok({})", dbg_value(v).chars().take(100).collect::<String>()),
        Item::End => "End".into(),
        Item::Err(m, c) => format!("Err[{}: {}]", c, m),
    }
}

/// A stream that reports end of input and later delivers more (a slow writer):
/// polled the same number of times, the four styles of the two APIs must
/// report items, errors and "nothing yet" at the same polls.
fn pausing_stream(rep: &mut Report, input: &[u8], q: &Q, rng: &mut Rng, tag: &str) {
    use crate::mon::io::PausingReader;
    let o = q.to_lexpr();
    let n_p = rng.range(1, 3);
    let pauses: Vec<usize> = (0..n_p).map(|_| rng.below(input.len() + 1)).collect();
    let polls = 24usize;
    let brief = |x: Result<Option<Value>, lexpr::parse::Error>| -> String {
        match x {
            Ok(Some(v)) => format!("item {}", dbg_value(&v)),
            Ok(None) => "none".into(),
            Err(e) => format!("error {}:{}", cat_name(&e), err_kind(&e)),
        }
    };
    let mut seqs: Vec<(&'static str, Vec<String>)> = Vec::new();
    {
        let mut p = Parser::from_reader_custom(PausingReader::new(input, pauses.clone()), o);
        seqs.push(("next_value", (0..polls).map(|_| brief(p.next_value())).collect()));
    }
    {
        let mut p = Parser::from_reader_custom(PausingReader::new(input, pauses.clone()), o);
        seqs.push(("next_datum", (0..polls).map(|_| brief(p.next_datum().map(|d| d.map(|d| d.value().clone())))).collect()));
    }
    {
        let mut p = Parser::from_reader_custom(PausingReader::new(input, pauses.clone()), o);
        seqs.push(("value_iter", (0..polls).map(|_| brief(p.value_iter().next().transpose())).collect()));
    }
    {
        let mut p = Parser::from_reader_custom(PausingReader::new(input, pauses.clone()), o);
        seqs.push(("datum_iter", (0..polls).map(|_| brief(p.datum_iter().next().transpose().map(|d| d.map(|d| d.value().clone())))).collect()));
    }
    rep.eval();
    rep.distinct(hash2(hash_bytes(input), hash2(q.index() as u64, pauses.iter().fold(7u64, |a, b| a.wrapping_mul(31).wrapping_add(*b as u64)))));
    rep.count("pausing-stream:compared");
    // the plain calls agree with each other at every poll; each adaptor agrees with its
    // plain call up to the first error (after which the adaptors are fused)
    let pairs = [(0usize, 1usize, usize::MAX), (0, 2, 0), (1, 3, 0), (2, 3, usize::MAX)];
    for (x, y, until_error) in pairs {
        let (a, b) = (&seqs[x].1, &seqs[y].1);
        let mut limit = polls;
        if until_error == 0 {
            if let Some(i) = a.iter().position(|s| s.starts_with("error")) {
                limit = i + 1;
            }
        }
        if let Some(i) = (0..limit).find(|&i| a[i] != b[i]) {
            rep.violation(
                "pausing-stream",
                format!("C10:pausing-stream:{}-vs-{}", seqs[x].0, seqs[y].0),
                format!("stream over {:?} with {} pausing (Ok(0), then more data) at offsets {:?}: at poll #{} {} gives '{}' but {} gives '{}'", show(input), q.describe(), pauses, i, seqs[x].0, a[i], seqs[y].0, b[i]),
                json!({"input_hex": hex(input), "q_index": q.index(), "pauses": pauses, "generator": tag}),
            );
            return;
        }
    }
}

pub fn sets(ctx: &Ctx) -> Vec<CaseSet> {
    let tb = Arc::new(Tables::new());
    let mut cfg = GenCfg::default_dialect();
    cfg.max_depth = 4;
    cfg.max_items = 5;
    let cfg = Arc::new(cfg);
    let (tbp, cfgp) = (tb.clone(), cfg.clone());
    vec![
        CaseSet::new(
            "pausing-streams",
            ctx.size(20_000, 600_000),
            Box::new(move |rep, rng, _| {
                let (input, q, tag) = crate::props::c06::gen_input(rng, &tbp, &cfgp, 200);
                pausing_stream(rep, &input, &q, rng, tag);
            }),
        ),
        // nesting around the recursion limit: both APIs must draw the line at the same place
        CaseSet::new(
            "near-limit-nesting",
            ctx.size(2_400, 6_000),
            Box::new(move |rep, rng, _| {
                let units: &[(&str, &str)] = &[("'", ""), ("`", ""), (",", ""), (",@", ""), ("(", ")"), ("#(", ")"), ("[", "]"), ("(a . ", ")")];
                let total = rng.range(118, 136);
                let mut open = String::new();
                let mut close = String::new();
                let mode = rng.below(4);
                for i in 0..total {
                    let (o, c) = match mode {
                        0 => units[rng.below(4)],
                        1 => units[rng.below(units.len())],
                        2 => units[4 + rng.below(4)],
                        _ => if i + 3 < total { units[4 + rng.below(4)] } else { units[rng.below(4)] },
                    };
                    open.push_str(o);
                    close.insert_str(0, c);
                }
                // several items: the APIs must also agree on what follows a rejected item
                let text = format!("{}x{} y (z)", open, if rng.chance(1, 4) { String::new() } else { close });
                let q = match rng.below(3) { 0 => Q::default_(), 1 => Q::elisp(), _ => Q::from_index(rng.below(N_Q)) };
                rep.count("inputs:near-limit-nesting");
                compare_apis(rep, text.as_bytes(), &q, "near-limit-nesting", rng);
            }),
        ),
        CaseSet::new(
            "errors-then-nesting",
            ctx.size(1_200, 3_000),
            Box::new(move |rep, rng, _| {
                // many items that fail inside a nesting construct, then a well-formed nested item
                let bad: &[&str] = &["'#z ", "''#z ", "(')", "(#z) ", "#(#z) ", "[#z] ", "`,#z ", "(a . #z) ", "'", "(()", ",@#z "];
                let n = rng.range(20, 140);
                let mut s = String::new();
                let which = *rng.pick::<&str>(bad);
                for _ in 0..n {
                    s.push_str(if rng.chance(4, 5) { which } else { *rng.pick::<&str>(bad) });
                }
                let depth = rng.range(30, 110);
                s.push_str(&"(".repeat(depth));
                s.push('x');
                s.push_str(&")".repeat(depth));
                let q = if rng.bool() { Q::default_() } else { Q::elisp() };
                rep.count("inputs:errors-then-nesting");
                compare_apis(rep, s.as_bytes(), &q, "errors-then-nesting", rng);
            }),
        ),
        CaseSet::new(
        "api-agreement-and-walk",
        ctx.size(600_000, 18_000_000),
        Box::new(move |rep, rng, _| {
            let (input, q, tag) = crate::props::c06::gen_input(rng, &tb, &cfg, 600);
            let q = if rng.chance(1, 2) { Q::from_index(rng.below(N_Q)) } else { q };
            rep.count(&format!("inputs:{}", tag));
            compare_apis(rep, &input, &q, tag, rng);
        }),
    )]
}
