//! Property registry.

use crate::report::Report;
use crate::run::{CaseSet, Ctx};

pub struct PropDef {
    pub id: &'static str,
    pub level: &'static str,
    pub rule: &'static str,
    pub assumptions: &'static [&'static str],
    /// also run in the build without fast-float-parsing
    pub nofast_too: bool,
    pub min_quick: u64,
    pub min_thorough: u64,
    pub sets: fn(&Ctx) -> Vec<CaseSet>,
    /// extra "did the monitors observe enough" assertions
    pub post: Option<fn(&Ctx, &mut Report)>,
}

impl PropDef {
    pub fn min_evals(&self, ctx: &Ctx) -> u64 {
        if ctx.thorough {
            self.min_thorough
        } else {
            self.min_quick
        }
    }
}

pub mod common;

pub mod c01;
pub mod c02;
pub mod c03;
#[cfg(feature = "full")]
pub mod c04;
pub mod c05;
pub mod c06;
pub mod c07;
pub mod c08;
pub mod c09;
pub mod c10;
pub mod c11;
pub mod c12;
pub mod c13;
#[cfg(feature = "full")]
pub mod c14;
pub mod c15;
pub mod c16;
pub mod c17;
#[cfg(feature = "full")]
pub mod c18;
pub mod c19;
pub mod c20;

pub fn get(id: &str) -> Option<PropDef> {
    match id {
        "C01" => Some(c01::def()),
        "C02" => Some(c02::def()),
        "C03" => Some(c03::def()),
        #[cfg(feature = "full")]
        "C04" => Some(c04::def()),
        #[cfg(feature = "full")]
        "C14" => Some(c14::def()),
        #[cfg(feature = "full")]
        "C18" => Some(c18::def()),
        "C05" => Some(c05::def()),
        "C06" => Some(c06::def()),
        "C07" => Some(c07::def()),
        "C08" => Some(c08::def()),
        "C09" => Some(c09::def()),
        "C10" => Some(c10::def()),
        "C11" => Some(c11::def()),
        "C12" => Some(c12::def()),
        "C13" => Some(c13::def()),
        "C15" => Some(c15::def()),
        "C16" => Some(c16::def()),
        "C17" => Some(c17::def()),
        "C19" => Some(c19::def()),
        "C20" => Some(c20::def()),
        _ => None,
    }
}

/// `vcheck child <op> ...` dispatch (crash monitors).
pub fn child_main(args: &[String]) -> i32 {
    match args.first().map(|s| s.as_str()) {
        Some("c03-deep") => c03::child(&args[1..]),
        Some("c03-flat") => c03::child_flat(&args[1..]),
        Some("c16") => c16::child(&args[1..]),
        _ => {
            eprintln!("unknown child op {:?}", args.first());
            2
        }
    }
}
