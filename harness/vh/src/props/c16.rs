//! C16 -- stack use does not grow with the number of list elements.
//!
//! Crash monitor: each operation runs in a child process, on a thread with a
//! fixed stack, on an n-element list; the observation is the exit status.
//! Thorough additionally bisects the minimal stack for n = 10^3 and demands
//! that n = 10^6 succeeds with that stack + 32 KiB.

use crate::mon::child::{self, Exit};
use crate::props::PropDef;
use crate::report::Report;
use crate::rng::{hash2, hash_str};
use crate::run::{CaseSet, Ctx};
use lexpr::{Datum, Parser, Value};
use serde_json::json;
use std::io::Cursor;
use std::time::Duration;

pub fn def() -> PropDef {
    PropDef {
        id: "C16",
        level: "exploration",
        rule: "cases = (operation, list shape in {proper, dotted}, element kind in {int, nil, null, string, pair}, build profile in {release, dev}, n, thread stack size): 38 operations of the public API that walk a list (parse from str/slice/stream, next_datum, print via to_string/to_writer/Display/Emacs options, to_vec family, iter/list_iter/into_iter, get/index by position, name and value, is_list/is_dotted_list, clone, ==, drop, Datum clone/==/drop/Ref walk, serde to_value/from_value/to_string/from_str on Vec<u32>), lists built by constructors, by the parser and by Serde; n = 10^6 on a 2 MiB thread (and 4x10^6 in thorough); thorough also finds by bisection over child runs the minimal stack (8 KiB resolution) at which n = 10^3 succeeds and requires n = 10^6 to succeed with that + 32 KiB. non-trivial = one child process whose exit status was judged; distinct = hash of (op, shape, profile, n, stack)",
        assumptions: &["SIGSEGV, or SIGABRT with 'has overflowed its stack' on stderr, means stack overflow; any other abnormal end is inconclusive", "hook-free release and dev builds of the harness are what users ship/debug"],
        nofast_too: false,
        min_quick: 60,
        min_thorough: 300,
        sets,
        post: None,
    }
}

pub const OPS: &[&str] = &[
    "parse-str", "parse-slice", "parse-reader", "datum-reader", "datum-slice",
    "parse-dotted-pair-notation", "datum-dotted-pair-notation",
    "print-to_string", "print-to_writer", "print-display", "print-elisp",
    "value-to_vec", "cons-to_vec", "cons-to_ref_vec", "cons-into_vec",
    "cons-iter", "list_iter", "into_iter",
    "get-last", "index-out-of-range", "index-missing-name", "get-by-value-key",
    "is_list", "is_dotted_list",
    "clone", "eq", "eq-all-different", "eq-last-different", "drop", "drop-parsed",
    "datum-clone", "datum-eq", "datum-drop", "datum-walk", "datum-into-value",
    "serde-to_value", "serde-from_value", "serde-to_string", "serde-from_str", "serde-drop-value",
    "serde-skipped-field", "serde-ignored-any", "serde-option-of-list", "serde-map-value-list",
];

fn list_text(n: usize, dotted: bool) -> String {
    let mut s = String::with_capacity(n * 10);
    s.push('(');
    let kind = ELEMS[ELEM.with(|e| e.get())];
    for i in 0..n {
        if i > 0 {
            s.push(' ');
        }
        match kind {
            "nil" => s.push_str("#nil"),
            "null" => s.push_str("()"),
            "string" => s.push_str(&format!("\"s{}\"", i % 1000)),
            "pair" => s.push_str(&format!("({} . x)", i % 1000)),
            "quoted" => s.push_str("'a"),
            "vector" => s.push_str("#(1)"),
            _ => s.push_str(&(i % 1000).to_string()),
        }
    }
    if dotted {
        s.push_str(" . t");
    }
    s.push(')');
    s
}

pub const ELEMS: &[&str] = &["int", "nil", "null", "string", "pair", "quoted", "vector"];

thread_local! {
    static ELEM: std::cell::Cell<usize> = std::cell::Cell::new(0);
    static OFFSET: std::cell::Cell<usize> = std::cell::Cell::new(0);
}

fn elem_value(i: usize) -> Value {
    let i = i + OFFSET.with(|o| o.get());
    match ELEMS[ELEM.with(|e| e.get())] {
        "nil" => Value::Nil,
        "null" => Value::Null,
        "string" => Value::string(format!("s{}", i % 1000)),
        "pair" => Value::cons(Value::from((i % 1000) as u32), Value::symbol("x")),
        "quoted" => Value::list(vec![Value::symbol("quote"), Value::symbol("a")]),
        "vector" => Value::vector(vec![Value::from(1u32)]),
        _ => Value::from((i % 1000) as u32),
    }
}

fn build_value(n: usize, dotted: bool) -> Value {
    let items = (0..n).map(elem_value);
    if dotted {
        Value::append(items, Value::symbol("t"))
    } else {
        Value::list(items)
    }
}

enum Built {
    Text(String),
    Val(Value),
    Val2(Value, Value),
    Dat(Datum),
    Dat2(Datum, Datum),
    Nums(Vec<u32>),
}

fn datum_of(text: &str) -> Datum {
    Parser::from_reader(Cursor::new(text.as_bytes())).next_datum().unwrap().unwrap()
}

fn build(op: &str, n: usize, dotted: bool) -> Built {
    match op {
        "parse-str" | "parse-slice" | "parse-reader" | "datum-reader" | "datum-slice" => Built::Text(list_text(n, dotted)),
        // the same flat list written cell by cell, (1 . (1 . (... ()))): nesting in the
        // text, not in the value; must be parsed in bounded stack or refused
        "parse-dotted-pair-notation" | "datum-dotted-pair-notation" => {
            let mut s = String::with_capacity(n * 7 + 2);
            for _ in 0..n {
                s.push_str("(1 . ");
            }
            s.push_str(if dotted { "t" } else { "()" });
            for _ in 0..n {
                s.push(')');
            }
            Built::Text(s)
        }
        // a Vec<u32> is a proper list
        "serde-from_str" => Built::Text(list_text(n, false)),
        "eq" => Built::Val2(build_value(n, dotted), build_value(n, dotted)),
        "eq-all-different" => {
            // two lists that differ in (almost) every element
            let a = build_value(n, dotted);
            OFFSET.with(|o| o.set(1));
            let b = build_value(n, dotted);
            Built::Val2(a, b)
        }
        "eq-last-different" => {
            let a = build_value(n, dotted);
            let b = Value::append((0..n).map(elem_value), Value::symbol("other-tail"));
            Built::Val2(a, b)
        }
        "drop-parsed" => Built::Val(lexpr::from_str(&list_text(n, dotted)).unwrap()),
        "datum-clone" | "datum-drop" | "datum-walk" | "datum-into-value" => Built::Dat(datum_of(&list_text(n, dotted))),
        "datum-eq" => {
            let t = list_text(n, dotted);
            Built::Dat2(datum_of(&t), datum_of(&t))
        }
        "serde-to_value" | "serde-to_string" => Built::Nums((0..n as u32).collect()),
        // a long list sitting where the target type skips it / wraps it
        #[cfg(feature = "full")]
        "serde-skipped-field" => {
            let long = serde_lexpr::to_value(&(0..n as u32).collect::<Vec<u32>>()).unwrap();
            Built::Val(Value::list(vec![
                Value::cons(Value::symbol("name"), Value::string("srv")),
                Value::cons(Value::symbol("history"), long),
                Value::cons(Value::symbol("port"), Value::from(8080u32)),
            ]))
        }
        #[cfg(feature = "full")]
        "serde-ignored-any" | "serde-option-of-list" => Built::Val(serde_lexpr::to_value(&(0..n as u32).collect::<Vec<u32>>()).unwrap()),
        #[cfg(feature = "full")]
        "serde-map-value-list" => Built::Val(Value::list(vec![Value::cons(Value::string("k"), serde_lexpr::to_value(&(0..n as u32).collect::<Vec<u32>>()).unwrap())])),
        #[cfg(feature = "full")]
        "serde-from_value" | "serde-drop-value" => Built::Val(serde_lexpr::to_value(&(0..n as u32).collect::<Vec<u32>>()).unwrap()),
        _ => Built::Val(build_value(n, dotted)),
    }
}

/// The measured operation. Results are leaked (mem::forget) so that their drop
/// is not part of the measurement; `drop` ops measure exactly the drop.
fn run_op(op: &str, b: Built, n: usize) -> String {
    use std::mem::forget;
    match (op, b) {
        ("parse-str", Built::Text(t)) => {
            let v = lexpr::from_str(&t).expect("parse");
            forget(v);
            forget(t);
            "parsed".into()
        }
        ("parse-slice", Built::Text(t)) => {
            forget(lexpr::from_slice(t.as_bytes()).expect("parse"));
            forget(t);
            "parsed".into()
        }
        ("parse-reader", Built::Text(t)) => {
            forget(lexpr::from_reader(Cursor::new(t.as_bytes())).expect("parse"));
            forget(t);
            "parsed".into()
        }
        ("datum-reader", Built::Text(t)) => {
            forget(Parser::from_reader(Cursor::new(t.as_bytes())).next_datum().expect("parse"));
            forget(t);
            "parsed".into()
        }
        ("datum-slice", Built::Text(t)) => {
            forget(lexpr::datum::from_slice(t.as_bytes()).expect("parse"));
            forget(t);
            "parsed".into()
        }
        ("parse-dotted-pair-notation", Built::Text(t)) => {
            let r = match lexpr::from_reader(Cursor::new(t.as_bytes())) {
                Ok(v) => {
                    forget(v);
                    "parsed".to_string()
                }
                Err(e) => format!("refused: {}", crate::props::common::err_kind(&e)),
            };
            forget(t);
            r
        }
        ("datum-dotted-pair-notation", Built::Text(t)) => {
            let r = match lexpr::datum::from_str(&t) {
                Ok(v) => {
                    forget(v);
                    "parsed".to_string()
                }
                Err(e) => format!("refused: {}", crate::props::common::err_kind(&e)),
            };
            forget(t);
            r
        }
        ("print-to_string", Built::Val(v)) => {
            let s = lexpr::to_string(&v).unwrap();
            let r = format!("{} bytes", s.len());
            forget(v);
            r
        }
        ("print-to_writer", Built::Val(v)) => {
            lexpr::to_writer(std::io::sink(), &v).unwrap();
            forget(v);
            "written".into()
        }
        ("print-display", Built::Val(v)) => {
            let s = format!("{}", v);
            let r = format!("{} bytes", s.len());
            forget(v);
            r
        }
        ("print-elisp", Built::Val(v)) => {
            let s = lexpr::to_string_custom(&v, lexpr::print::Options::elisp()).unwrap();
            let r = format!("{} bytes", s.len());
            forget(v);
            r
        }
        ("value-to_vec", Built::Val(v)) => {
            let r = v.to_vec().map(|x| {
                let l = x.len();
                forget(x);
                l
            });
            let rr = v.to_ref_vec().map(|x| x.len());
            forget(v);
            format!("{:?} {:?}", r, rr)
        }
        ("cons-to_vec", Built::Val(v)) => {
            let (xs, t) = v.as_cons().unwrap().to_vec();
            let r = xs.len();
            forget(xs);
            forget(t);
            forget(v);
            r.to_string()
        }
        ("cons-to_ref_vec", Built::Val(v)) => {
            let r = v.as_cons().unwrap().to_ref_vec().0.len();
            forget(v);
            r.to_string()
        }
        ("cons-into_vec", Built::Val(v)) => match v {
            Value::Cons(c) => {
                let (xs, t) = c.into_vec();
                let r = xs.len();
                forget(xs);
                forget(t);
                r.to_string()
            }
            _ => "not a cons".into(),
        },
        ("cons-iter", Built::Val(v)) => {
            let r = v.as_cons().unwrap().iter().count();
            forget(v);
            r.to_string()
        }
        ("list_iter", Built::Val(v)) => {
            let mut it = v.list_iter().unwrap();
            let mut c = 0usize;
            while it.next().is_some() {
                c += 1;
            }
            let tail = it.next().is_some();
            forget(v);
            format!("{} tail={}", c, tail)
        }
        ("into_iter", Built::Val(v)) => match v {
            Value::Cons(c) => c.into_iter().count().to_string(),
            _ => "not a cons".into(),
        },
        ("get-last", Built::Val(v)) => {
            let r = v.get(n - 1).is_some();
            forget(v);
            r.to_string()
        }
        ("index-out-of-range", Built::Val(v)) => {
            let r = v[n + 5].is_nil() && v.get(usize::MAX).is_none();
            forget(v);
            r.to_string()
        }
        ("index-missing-name", Built::Val(v)) => {
            let r = v["missing"].is_nil();
            forget(v);
            r.to_string()
        }
        ("get-by-value-key", Built::Val(v)) => {
            let r = v.get(&Value::symbol("missing")).is_none();
            forget(v);
            r.to_string()
        }
        ("is_list", Built::Val(v)) => {
            let r = v.is_list();
            forget(v);
            r.to_string()
        }
        ("is_dotted_list", Built::Val(v)) => {
            let r = v.is_dotted_list();
            forget(v);
            r.to_string()
        }
        ("clone", Built::Val(v)) => {
            let c = v.clone();
            forget(c);
            forget(v);
            "cloned".into()
        }
        ("eq-all-different", Built::Val2(a, b)) | ("eq-last-different", Built::Val2(a, b)) => {
            let r = a == b;
            let r2 = a != b;
            forget(a);
            forget(b);
            format!("{} {}", r, r2)
        }
        ("eq", Built::Val2(a, b)) => {
            let r = a == b;
            forget(a);
            forget(b);
            r.to_string()
        }
        ("drop", Built::Val(v)) | ("drop-parsed", Built::Val(v)) | ("serde-drop-value", Built::Val(v)) => {
            drop(v);
            "dropped".into()
        }
        ("datum-clone", Built::Dat(d)) => {
            let c = d.clone();
            forget(c);
            forget(d);
            "cloned".into()
        }
        ("datum-eq", Built::Dat2(a, b)) => {
            let r = a == b;
            forget(a);
            forget(b);
            r.to_string()
        }
        ("datum-drop", Built::Dat(d)) => {
            drop(d);
            "dropped".into()
        }
        ("datum-walk", Built::Dat(d)) => {
            let mut it = d.list_iter().unwrap();
            let mut c = 0usize;
            let mut cols = 0usize;
            while let Some(r) = it.next() {
                c += 1;
                cols = cols.wrapping_add(r.span().start().column());
            }
            let _ = d.span();
            forget(d);
            format!("{} {}", c, cols)
        }
        ("datum-into-value", Built::Dat(d)) => {
            let v: Value = Value::from(d);
            forget(v);
            "converted".into()
        }
        #[cfg(feature = "full")]
        ("serde-to_value", Built::Nums(xs)) => {
            forget(serde_lexpr::to_value(&xs).unwrap());
            "serialized".into()
        }
        #[cfg(feature = "full")]
        ("serde-to_string", Built::Nums(xs)) => serde_lexpr::to_string(&xs).unwrap().len().to_string(),
        #[cfg(feature = "full")]
        ("serde-from_value", Built::Val(v)) => {
            let xs: Vec<u32> = serde_lexpr::from_value(&v).unwrap();
            forget(v);
            xs.len().to_string()
        }
        #[cfg(feature = "full")]
        ("serde-skipped-field", Built::Val(v)) => {
            #[derive(serde_derive::Deserialize)]
            struct Config {
                name: String,
                port: u16,
            }
            let r = serde_lexpr::from_value::<Config>(&v).map(|c| format!("{}:{}", c.name, c.port)).unwrap_or_else(|e| format!("rejected: {}", e.to_string().chars().take(60).collect::<String>()));
            forget(v);
            r
        }
        #[cfg(feature = "full")]
        ("serde-ignored-any", Built::Val(v)) => {
            let r = serde_lexpr::from_value::<serde::de::IgnoredAny>(&v).map(|_| "ignored".to_string()).unwrap_or_else(|e| format!("rejected: {}", e.to_string().chars().take(60).collect::<String>()));
            forget(v);
            r
        }
        #[cfg(feature = "full")]
        ("serde-option-of-list", Built::Val(v)) => {
            // Some(list) is encoded as a one-element list holding the list
            let wrapped = Value::list(vec![v]);
            let r = serde_lexpr::from_value::<Option<Vec<u32>>>(&wrapped).map(|o| o.map_or(0, |x| x.len()).to_string()).unwrap_or_else(|e| format!("rejected: {}", e.to_string().chars().take(60).collect::<String>()));
            forget(wrapped);
            r
        }
        #[cfg(feature = "full")]
        ("serde-map-value-list", Built::Val(v)) => {
            let r = serde_lexpr::from_value::<std::collections::BTreeMap<String, Vec<u32>>>(&v).map(|m| m.values().map(|x| x.len()).sum::<usize>().to_string()).unwrap_or_else(|e| format!("rejected: {}", e.to_string().chars().take(60).collect::<String>()));
            forget(v);
            r
        }
        #[cfg(feature = "full")]
        ("serde-from_str", Built::Text(t)) => {
            let xs: Vec<u32> = serde_lexpr::from_str(&t).unwrap();
            forget(t);
            xs.len().to_string()
        }
        _ => "unsupported".into(),
    }
}

/// `vcheck child c16 <op> <n> <stack_kib> <proper|dotted>`
pub fn child(args: &[String]) -> i32 {
    let op = args[0].clone();
    let n: usize = args[1].parse().unwrap();
    let stack_kib: usize = args[2].parse().unwrap();
    let dotted = args[3] == "dotted";
    let elem = args.get(4).and_then(|e| ELEMS.iter().position(|x| x == e)).unwrap_or(0);
    let op2 = op.clone();
    let built = std::thread::Builder::new()
        .stack_size(1 << 30)
        .spawn(move || {
            ELEM.with(|e| e.set(elem));
            build(&op2, n, dotted)
        })
        .unwrap()
        .join();
    let built = match built {
        Ok(b) => b,
        Err(_) => return 4,
    };
    println!("BUILT");
    let h = std::thread::Builder::new().stack_size(stack_kib * 1024).spawn(move || run_op(&op, built, n)).unwrap();
    match h.join() {
        Ok(msg) => {
            println!("DONE {}", msg);
            // skip destructors of anything still alive
            std::process::exit(0);
        }
        Err(_) => 3,
    }
}

#[derive(Debug, PartialEq, Clone, Copy)]
enum Run {
    Ok,
    Overflow,
    Inconclusive,
}

fn run_child(bin: &str, op: &str, n: usize, stack_kib: usize, dotted: bool) -> (Run, String) {
    run_child_elem(bin, op, n, stack_kib, dotted, "int")
}

fn run_child_elem(bin: &str, op: &str, n: usize, stack_kib: usize, dotted: bool, elem: &str) -> (Run, String) {
    let args: Vec<String> = vec!["child".into(), "c16".into(), op.into(), n.to_string(), stack_kib.to_string(), if dotted { "dotted".into() } else { "proper".into() }, elem.into()];
    let r = child::run(bin, &args, Duration::from_secs(600));
    match &r.exit {
        Exit::Code(0) if r.stdout.contains("DONE") => {
            if r.stdout.contains("DONE unsupported") {
                (Run::Inconclusive, "operation not supported in this build".into())
            } else {
                (Run::Ok, r.stdout.lines().last().unwrap_or("").to_string())
            }
        }
        _ if r.stack_overflow() => {
            let phase = if r.stdout.contains("BUILT") { "during the operation" } else { "while building the input" };
            if phase == "while building the input" {
                (Run::Inconclusive, format!("stack overflow while building the input: {:?}", r.exit))
            } else {
                (Run::Overflow, format!("{:?} {}", r.exit, r.stderr_tail.lines().last().unwrap_or("")))
            }
        }
        other => (Run::Inconclusive, format!("{:?} stdout={:?} stderr={:?}", other, r.stdout, r.stderr_tail.lines().last().unwrap_or(""))),
    }
}

fn profiles() -> Vec<(&'static str, String)> {
    let mut v = Vec::new();
    if let Ok(b) = std::env::var("VH_REL_BIN") {
        if !b.is_empty() {
            v.push(("release", b));
        }
    }
    if let Ok(b) = std::env::var("VH_DEV_BIN") {
        if !b.is_empty() {
            v.push(("dev", b));
        }
    }
    v
}

fn n_for(op: &str, big: usize) -> usize {
    // slice-based datum parsing is quadratic in time (documented TODO in the crate): keep it small
    if op == "datum-slice" {
        20_000
    } else {
        big
    }
}

fn fixed_case(rep: &mut Report, op: &str, dotted: bool, big: usize) {
    let profs = profiles();
    if profs.is_empty() {
        rep.inconclusive("VH_REL_BIN / VH_DEV_BIN not set: no hook-free builds to run children from".into());
        return;
    }
    for (pname, bin) in profs {
        let n = n_for(op, big);
        let (res, info) = run_child(&bin, op, n, 2048, dotted);
        rep.eval();
        rep.distinct(hash2(hash_str(op), hash2(dotted as u64, hash2(hash_str(pname), n as u64))));
        rep.count(&format!("children:{}", pname));
        let shape = if dotted { "dotted" } else { "proper" };
        match res {
            Run::Ok => {
                rep.count("children:completed");
                if rep.want_sample() {
                    rep.sample(json!({"op": op, "shape": shape, "profile": pname, "n": n, "stack_kib": 2048, "result": info}));
                }
            }
            Run::Overflow => rep.violation(
                "fixed-stack",
                format!("C16:stack-overflow:{}:profile={}", op, pname),
                format!("{} on a {} list of {} elements ({} build) on a 2 MiB thread: stack overflow ({})", op, shape, n, pname, info),
                json!({"op": op, "shape": shape, "profile": pname, "n": n, "stack_kib": 2048}),
            ),
            Run::Inconclusive => {
                if info.contains("not supported") {
                    rep.count("children:unsupported-in-build");
                } else {
                    rep.inconclusive(format!("child {} {} {} n={}: {}", op, shape, pname, n, info))
                }
            }
        }
    }
}

fn bisect_case(rep: &mut Report, op: &str, dotted: bool) {
    for (pname, bin) in profiles() {
        let shape = if dotted { "dotted" } else { "proper" };
        // minimal stack (KiB, multiple of 8, >= 16) at which n = 1000 succeeds
        let small_n = 1000;
        let (mut lo, mut hi) = (8usize, 2048usize); // lo fails (assumed), hi succeeds
        let (top, _) = run_child(&bin, op, small_n, hi, dotted);
        rep.eval();
        if top != Run::Ok {
            if top == Run::Overflow {
                rep.violation("bisect", format!("C16:stack-overflow:{}:profile={}", op, pname), format!("{} on {} elements overflows even a 2 MiB stack ({} build)", op, small_n, pname), json!({"op": op, "profile": pname}));
            }
            continue;
        }
        while hi - lo > 8 {
            let mid = ((lo + hi) / 2 + 7) / 8 * 8;
            let mid = mid.clamp(lo + 8, hi - 8).max(16);
            if mid >= hi {
                break;
            }
            let (r, _) = run_child(&bin, op, small_n, mid, dotted);
            rep.eval();
            match r {
                Run::Ok => hi = mid,
                Run::Overflow => lo = mid,
                Run::Inconclusive => lo = mid, // e.g. thread creation refused tiny stacks
            }
        }
        let need_small = hi;
        let big_n = n_for(op, 1_000_000);
        let (r, info) = run_child(&bin, op, big_n, need_small + 32, dotted);
        rep.eval();
        rep.distinct(hash2(hash_str(op), hash2(hash_str(pname), need_small as u64 + dotted as u64 * 7919)));
        rep.max(&format!("min_stack_kib_n1000:{}:{}", op, pname), need_small as u64);
        match r {
            Run::Ok => {
                rep.count("bisect:n1e6-fits-in-n1e3-stack+32KiB");
                if rep.want_sample() {
                    rep.sample(json!({"op": op, "shape": shape, "profile": pname, "min_stack_kib_for_n_1000": need_small, "n_1e6_succeeds_with_kib": need_small + 32}));
                }
            }
            Run::Overflow => rep.violation(
                "bisect",
                format!("C16:stack-grows-with-length:{}:profile={}", op, pname),
                format!("{} ({} list, {} build): {} elements need {} KiB of stack, but {} elements overflow {} KiB ({})", op, shape, pname, small_n, need_small, big_n, need_small + 32, info),
                json!({"op": op, "shape": shape, "profile": pname, "min_stack_kib_n1000": need_small}),
            ),
            Run::Inconclusive => rep.inconclusive(format!("bisect child {} {}: {}", op, pname, info)),
        }
    }
}

pub fn sets(ctx: &Ctx) -> Vec<CaseSet> {
    let mut out = Vec::new();
    let nops = OPS.len() as u64;
    out.push(CaseSet::new(
        "million-elements-on-2MiB",
        nops * 2,
        Box::new(move |rep, _rng, case| {
            let op = OPS[(case % nops) as usize];
            fixed_case(rep, op, case >= nops, 1_000_000);
        }),
    ));
    // clone / == / drop / consuming iteration over lists of other element kinds
    const KIND_OPS: &[&str] = &["clone", "eq", "eq-all-different", "drop", "into_iter", "cons-into_vec", "print-to_string", "datum-reader", "datum-drop", "datum-walk", "datum-into-value", "parse-str", "drop-parsed"];
    let nk = (ELEMS.len() - 1) * KIND_OPS.len();
    out.push(CaseSet::new(
        "element-kinds",
        nk as u64,
        Box::new(move |rep, _rng, case| {
            let elem = ELEMS[1 + (case as usize) / KIND_OPS.len()];
            let op = KIND_OPS[(case as usize) % KIND_OPS.len()];
            for (pname, bin) in profiles() {
                let (res, info) = run_child_elem(&bin, op, 1_000_000, 2048, false, elem);
                rep.eval();
                rep.distinct(hash2(hash_str(op), hash2(hash_str(elem), hash_str(pname))));
                rep.count(&format!("children:{}", pname));
                match res {
                    Run::Ok => rep.count("children:completed"),
                    Run::Overflow => rep.violation(
                        "fixed-stack",
                        format!("C16:stack-overflow:{}:profile={}", op, pname),
                        format!("{} on a list of 1000000 {} elements ({} build) on a 2 MiB thread: stack overflow ({})", op, elem, pname, info),
                        json!({"op": op, "elem": elem, "profile": pname}),
                    ),
                    Run::Inconclusive => rep.inconclusive(format!("child {} {} {}: {}", op, elem, pname, info)),
                }
            }
        }),
    ));
    if ctx.thorough {
        out.push(CaseSet::new(
            "four-million-elements-on-2MiB",
            nops,
            Box::new(move |rep, _rng, case| {
                let op = OPS[case as usize];
                fixed_case(rep, op, false, 4_000_000);
            }),
        ));
        out.push(CaseSet::new(
            "stack-bisection",
            nops * 2,
            Box::new(move |rep, _rng, case| {
                let op = OPS[(case % nops) as usize];
                bisect_case(rep, op, case >= nops);
            }),
        ));
    }
    out
}
