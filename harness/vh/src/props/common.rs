//! Helpers shared by property modules.

use crate::report::Report;
use serde_json::{json, Value as J};

/// Short debug rendering of a value for details/samples.
pub fn dbg_value(v: &lexpr::Value) -> String {
    let s = format!("{:?}", v);
    if s.chars().count() > 240 {
        format!("{}...", s.chars().take(240).collect::<String>())
    } else {
        s
    }
}

pub fn fail(rep: &mut Report, check: &str, signature: String, detail: String, replay: J) {
    rep.violation(check, signature, detail, replay);
}

pub fn sample_if_room(rep: &mut Report, f: impl FnOnce() -> J) {
    if rep.want_sample() {
        let j = f();
        rep.sample(j);
    }
}

pub fn jstr(s: &str) -> J {
    json!(crate::report::show_str(s))
}
