//! Helpers shared by property modules.

use crate::report::Report;
use serde_json::{json, Value as J};

/// Short debug rendering of a value for details/samples.
pub fn dbg_value(v: &lexpr::Value) -> String {
    let s = format!("{:?}", v);
    if s.chars().count() > 240 {
        format!("{}...", s.chars().take(240).collect::<String>())
    } else {
        s
    }
}

pub fn fail(rep: &mut Report, check: &str, signature: String, detail: String, replay: J) {
    rep.violation(check, signature, detail, replay);
}

pub fn sample_if_room(rep: &mut Report, f: impl FnOnce() -> J) {
    if rep.want_sample() {
        let j = f();
        rep.sample(j);
    }
}

pub fn jstr(s: &str) -> J {
    json!(crate::report::show_str(s))
}

use lexpr::Value;

/// Children of a compound value (elements, plus a non-null tail).
pub fn children(v: &Value) -> Vec<Value> {
    match v {
        Value::Cons(c) => {
            let (xs, t) = c.to_ref_vec();
            let mut out: Vec<Value> = xs.into_iter().cloned().collect();
            if !t.is_null() {
                out.push(t.clone());
            }
            out
        }
        Value::Vector(xs) => xs.to_vec(),
        _ => vec![],
    }
}

/// Descend to a smallest sub-value for which `fails` still holds.
pub fn shrink(v: &Value, fails: &dyn Fn(&Value) -> bool) -> Value {
    let mut cur = v.clone();
    'outer: loop {
        for ch in children(&cur) {
            if fails(&ch) {
                cur = ch;
                continue 'outer;
            }
        }
        return cur;
    }
}

/// Values shaped like the expansion of a quotation shorthand, and near misses:
/// (h), (h a), (h a b), (h a . b), (h . a), (h (h a)), #(h a), ((h a) . b), (a h b)
/// for h in quote / quasiquote / unquote / unquote-splicing / function.
pub fn quote_shaped() -> Vec<Value> {
    let mut out = Vec::new();
    let (a, b) = (Value::symbol("a"), Value::symbol("b"));
    for h in ["quote", "quasiquote", "unquote", "unquote-splicing", "function"] {
        let hs = Value::symbol(h);
        let inner = Value::list(vec![hs.clone(), a.clone()]);
        out.extend([
            Value::list(vec![hs.clone()]),
            inner.clone(),
            Value::list(vec![hs.clone(), a.clone(), b.clone()]),
            Value::append(vec![hs.clone(), a.clone()], b.clone()),
            Value::cons(hs.clone(), a.clone()),
            Value::list(vec![hs.clone(), inner.clone()]),
            Value::vector(vec![hs.clone(), a.clone()]),
            Value::cons(inner.clone(), b.clone()),
            Value::list(vec![a.clone(), hs.clone(), b.clone()]),
            Value::list(vec![hs.clone(), Value::Null]),
            Value::list(vec![hs.clone(), Value::list(vec![a.clone(), b.clone()])]),
            Value::append(vec![hs.clone(), inner.clone()], Value::from(1)),
            Value::list(vec![hs.clone(), Value::string("s")]),
            Value::list(vec![Value::keyword(h), a.clone()]),
            Value::list(vec![Value::string(h), a.clone()]),
        ]);
    }
    out
}

pub fn char_class(c: char) -> &'static str {
    let n = c as u32;
    match n {
        0x20 => "space",
        0..=0x1F => "c0-control",
        0x7F => "del",
        0x21..=0x7E => "ascii-printable",
        0x80..=0x9F => "c1-control",
        0xA0..=0xFF => "latin1",
        0x100..=0xFFFF => "bmp",
        _ => "astral",
    }
}

/// Coarse but stable description of a leaf, used in violation signatures.
pub fn leaf_class(v: &Value) -> String {
    match v {
        Value::Nil => "nil".into(),
        Value::Null => "null".into(),
        Value::Bool(_) => "bool".into(),
        Value::Number(n) => {
            if let Some(f) = n.as_f64().filter(|_| n.is_f64()) {
                let s = format!("{:?}", f);
                let e = s.contains('e');
                let d = s.contains('.');
                let mag = if f == 0.0 {
                    "zero"
                } else if f.abs() < f64::MIN_POSITIVE {
                    "subnormal"
                } else {
                    "normal"
                };
                format!("float:{}{}:{}", if e { "exp" } else { "noexp" }, if d { "+frac" } else { "+nofrac" }, mag)
            } else if n.is_u64() {
                "int:nonneg".into()
            } else {
                "int:neg".into()
            }
        }
        Value::Char(c) => format!("char:{}", char_class(*c)),
        Value::String(s) => {
            let mut worst = "ascii-printable";
            for c in s.chars() {
                let k = char_class(c);
                if k != "ascii-printable" && k != "space" {
                    worst = k;
                    break;
                }
                if c == '"' || c == '\\' {
                    worst = "quote-or-backslash";
                }
            }
            format!("string:{}", if s.is_empty() { "empty" } else { worst })
        }
        Value::Symbol(s) | Value::Keyword(s) => {
            let kind = if matches!(v, Value::Symbol(_)) { "symbol" } else { "keyword" };
            let shape = name_shape(s);
            format!("{}:{}", kind, shape)
        }
        Value::Bytes(b) => format!("bytes:{}", if b.is_empty() { "empty" } else { "nonempty" }),
        Value::Cons(_) => "compound:cons".into(),
        Value::Vector(_) => "compound:vector".into(),
    }
}

pub fn name_shape(s: &str) -> String {
    let cs: Vec<char> = s.chars().collect();
    if cs.is_empty() {
        return "empty".into();
    }
    if s == "+" || s == "-" || s == "..." {
        return "peculiar-basic".into();
    }
    if (cs[0] == '+' || cs[0] == '-') && cs.len() > 1 {
        if cs[1] == '.' {
            return "sign-dot-prefix".into();
        }
        return "sign-prefix".into();
    }
    if cs[0] == '.' {
        return "dot-prefix".into();
    }
    let first = if cs[0].is_ascii_alphabetic() {
        "alpha"
    } else if cs[0].is_ascii_digit() {
        "digit"
    } else if (cs[0] as u32) > 127 {
        "unicode"
    } else if cs[0] == ':' {
        "colon"
    } else {
        "special"
    };
    let mut flags = String::new();
    if cs.len() > 1 && *cs.last().unwrap() == ':' {
        flags.push_str("+colon-end");
    }
    if cs[1..].iter().any(|c| (*c as u32) > 127) {
        flags.push_str("+unicode-inside");
    }
    format!("{}-initial{}", first, flags)
}

/// Error text without the trailing " at line L column C".
pub fn err_kind(e: &lexpr::parse::Error) -> String {
    let s = e.to_string();
    match s.find(" at line ") {
        Some(i) => s[..i].to_string(),
        None => s,
    }
}

pub fn cat_name(e: &lexpr::parse::Error) -> &'static str {
    match e.classify() {
        lexpr::parse::error::Category::Io => "io",
        lexpr::parse::error::Category::Syntax => "syntax",
        lexpr::parse::error::Category::Eof => "eof",
    }
}
