//! C04 -- Serde round trip: Rust data -> S-expression -> Rust data is the identity.

use crate::fam::{family, Fam, G};
use crate::mon::panics;
use crate::props::PropDef;
use crate::report::{show_str, Report};
use crate::rng::{hash2, hash_str, Rng};
use crate::run::{CaseSet, Ctx};
use serde_json::json;

pub fn def() -> PropDef {
    PropDef {
        id: "C04",
        level: "exploration",
        rule: "cases = (type T from a family of 58 concrete Rust types (plus 9 borrowing targets such as &str, Vec<&str>, #[serde(borrow)] structs) covering every Serde data-model category and the shape-ambiguous nestings -- Option<Option<T>>, Option<()>, Option<Vec<T>>, Vec<Option<T>>, newtype variant around seq/option/unit/tuple/box-of-self vs tuple variant, empty tuple/struct variants, 1-tuples, [T;0], maps with integer/char/string keys, enums inside maps inside structs --, value of T from a recursive generator with boundary integers, arbitrary Unicode strings, empty and long collections, route in {to_value/from_value, to_string/from_str, to_vec/from_slice, to_writer/from_reader, and the three _custom pairs with default options}); all text routes must also produce the same text. non-trivial = one value taken through one route and compared on the Rust side; distinct = hash of (type, serialized text, route)",
        assumptions: &["equality on the Rust side is ==, except floats: bit-exact through values (NaN included), C05 rule through text in the fast-float build", "serde_derive's generated impls are correct"],
        nofast_too: false,
        min_quick: 100_000,
        min_thorough: 4_000_000,
        sets,
        post: None,
    }
}

fn short<T: std::fmt::Debug>(x: &T) -> String {
    let s = format!("{:?}", x);
    if s.chars().count() > 200 {
        format!("{}...", s.chars().take(200).collect::<String>())
    } else {
        s
    }
}

fn tname<T>() -> String {
    std::any::type_name::<T>().replace("alloc::string::", "").replace("alloc::vec::", "").replace("alloc::collections::btree::map::", "").replace("alloc::collections::btree::set::", "").replace("core::option::", "").replace("vh::fam::", "").replace("serde_bytes::bytebuf::", "").replace("alloc::boxed::", "")
}

pub fn run<T: Fam>(rep: &mut Report, rng: &mut Rng) {
    let name = tname::<T>();
    // ---- through values (non-finite floats allowed)
    let x = T::gen(rng, G { finite: false, depth: 0 });
    rep.eval();
    let r = panics::guarded(|| serde_lexpr::to_value(&x).map_err(|e| format!("to_value failed: {}", e)).and_then(|v| serde_lexpr::from_value::<T>(&v).map(|y| (v, y)).map_err(|e| format!("from_value failed: {}", e))));
    match r {
        Err(p) => {
            if p.in_library() {
                rep.violation("value-route", format!("C04:panic:{}:{}", name, p.sig()), format!("{} {}: {}", name, short(&x), p.short()), json!({"type": name}));
            } else {
                rep.inconclusive(format!("harness panic: {}", p.short()));
            }
            return;
        }
        Ok(Err(e)) => {
            rep.violation("value-route", format!("C04:value-route-error:{}", name), format!("{} value {}: {}", name, short(&x), e), json!({"type": name, "value": short(&x)}));
            return;
        }
        Ok(Ok((v, y))) => {
            rep.distinct(hash2(hash_str(&name), hash_str(&format!("{:?}", v))));
            if !x.same(&y, false) {
                rep.violation("value-route", format!("C04:value-route-differs:{}", name), format!("{}: {} -> {} -> {}", name, short(&x), crate::props::common::dbg_value(&v), short(&y)), json!({"type": name, "value": short(&x)}));
                return;
            }
        }
    }
    // ---- through text with the default printer and parser (finite floats)
    let x = T::gen(rng, G { finite: true, depth: 0 });
    let routes: Vec<(&str, Result<Result<(String, T), String>, panics::PanicInfo>)> = vec![
        ("to_string/from_str", panics::guarded(|| serde_lexpr::to_string(&x).map_err(|e| format!("to_string failed: {}", e)).and_then(|s| serde_lexpr::from_str::<T>(&s).map(|y| (s.clone(), y)).map_err(|e| format!("from_str failed on {:?}: {}", show_str(&s), e))))),
        ("to_vec/from_slice", panics::guarded(|| serde_lexpr::to_vec(&x).map_err(|e| format!("to_vec failed: {}", e)).and_then(|b| serde_lexpr::from_slice::<T>(&b).map(|y| (String::from_utf8_lossy(&b).to_string(), y)).map_err(|e| format!("from_slice failed on {:?}: {}", crate::report::show(&b), e))))),
        ("to_writer/from_reader", panics::guarded(|| {
            let mut w = Vec::new();
            serde_lexpr::to_writer(&mut w, &x).map_err(|e| format!("to_writer failed: {}", e))?;
            serde_lexpr::from_reader::<T>(&w[..]).map(|y| (String::from_utf8_lossy(&w).to_string(), y)).map_err(|e| format!("from_reader failed on {:?}: {}", crate::report::show(&w), e))
        })),
        ("to_vec_custom/from_slice_custom(default)", panics::guarded(|| serde_lexpr::to_vec_custom(&x, lexpr::print::Options::default()).map_err(|e| e.to_string()).and_then(|b| serde_lexpr::from_slice_custom::<T>(&b, lexpr::parse::Options::default()).map(|y| (String::from_utf8_lossy(&b).to_string(), y)).map_err(|e| format!("from_slice_custom failed on {:?}: {}", crate::report::show(&b), e))))),
        ("to_writer_custom/from_reader_custom(default)", panics::guarded(|| {
            let mut w = Vec::new();
            serde_lexpr::to_writer_custom(&mut w, &x, lexpr::print::Options::default()).map_err(|e| format!("to_writer_custom failed: {}", e))?;
            serde_lexpr::from_reader_custom::<T>(&w[..], lexpr::parse::Options::default()).map(|y| (String::from_utf8_lossy(&w).to_string(), y)).map_err(|e| format!("from_reader_custom failed on {:?}: {}", crate::report::show(&w), e))
        })),
        ("to_string_custom/from_str_custom(default)", panics::guarded(|| serde_lexpr::to_string_custom(&x, lexpr::print::Options::default()).map_err(|e| e.to_string()).and_then(|s| serde_lexpr::from_str_custom::<T>(&s, lexpr::parse::Options::default()).map(|y| (s.clone(), y)).map_err(|e| format!("from_str_custom failed on {:?}: {}", show_str(&s), e))))),
    ];
    let mut first_text: Option<String> = None;
    for (route, r) in routes {
        rep.eval();
        if let Ok(Ok((s, _))) = &r {
            match &first_text {
                None => first_text = Some(s.clone()),
                Some(t) if t != s => {
                    rep.violation("text-route", format!("C04:text-routes-print-differently:{}", name), format!("{}: {} printed {:?} by to_string but {:?} via {}", name, short(&x), show_str(t), show_str(s), route), json!({"type": name, "route": route}));
                    return;
                }
                _ => {}
            }
        }
        match r {
            Err(p) => {
                if p.in_library() {
                    rep.violation("text-route", format!("C04:panic:{}:{}", name, p.sig()), format!("{} via {}: {}", name, route, p.short()), json!({"type": name}));
                } else {
                    rep.inconclusive(format!("harness panic: {}", p.short()));
                }
                return;
            }
            Ok(Err(e)) => {
                rep.violation("text-route", format!("C04:text-route-error:{}", name), format!("{} via {} value {}: {}", name, route, short(&x), e), json!({"type": name, "route": route}));
                return;
            }
            Ok(Ok((s, y))) => {
                rep.distinct(hash2(hash_str(&name), hash2(hash_str(&s), hash_str(route))));
                if !x.same(&y, true) {
                    rep.violation("text-route", format!("C04:text-route-differs:{}", name), format!("{} via {}: {} -> {:?} -> {}", name, route, short(&x), show_str(&s), short(&y)), json!({"type": name, "route": route, "text": s}));
                    return;
                }
                if rep.want_sample() && route == "to_string/from_str" {
                    rep.sample(json!({"type": name, "text": show_str(&s)}));
                }
            }
        }
    }
    rep.count(&format!("type:{}", name));
}

#[derive(serde_derive::Serialize, serde_derive::Deserialize, Debug, PartialEq)]
struct Borrowing<'a> {
    #[serde(borrow)]
    name: &'a str,
    #[serde(borrow)]
    raw: &'a serde_bytes::Bytes,
    n: u8,
}

#[derive(serde_derive::Serialize, serde_derive::Deserialize, Debug, PartialEq)]
enum BorrowingEnum<'a> {
    #[serde(borrow)]
    Text(&'a str),
    Pair(&'a str, u8),
}

/// Zero-copy targets: from_value::<'a, T: Deserialize<'a>> must hand out borrows of the value.
fn borrowed_targets(rep: &mut Report, rng: &mut Rng) {
    let s1 = crate::gen::gen_string(rng, 10);
    let s2 = crate::gen::gen_string(rng, 6);
    let bytes = crate::gen::gen_bytes(rng, 8);
    let n = rng.below(256) as u8;
    macro_rules! rt {
        ($name:expr, $x:expr, $t:ty) => {{
            rep.eval();
            let x: $t = $x;
            match crate::mon::panics::guarded(|| serde_lexpr::to_value(&x).map_err(|e| e.to_string())) {
                Ok(Ok(v)) => match serde_lexpr::from_value::<$t>(&v) {
                    Ok(y) if y == x => {
                        rep.distinct(hash2(hash_str($name), hash_str(&format!("{:?}", v))));
                        rep.count(concat!("borrowed:", $name));
                    }
                    Ok(y) => rep.violation("borrowed", format!("C04:borrowed-differs:{}", $name), format!("{}: {:?} -> {} -> {:?}", $name, x, crate::props::common::dbg_value(&v), y), json!({"type": $name})),
                    Err(e) => rep.violation("borrowed", format!("C04:borrowed-target-error:{}", $name), format!("{}: {:?} serializes to {} which does not deserialize into the borrowing target: {}", $name, x, crate::props::common::dbg_value(&v), e), json!({"type": $name})),
                },
                Ok(Err(e)) => rep.violation("borrowed", format!("C04:borrowed-to_value-error:{}", $name), e, json!({"type": $name})),
                Err(p) => {
                    if p.in_library() {
                        rep.violation("borrowed", format!("C04:panic:{}", p.sig()), p.short(), json!({"type": $name}))
                    } else {
                        rep.inconclusive(format!("harness panic: {}", p.short()))
                    }
                }
            }
        }};
    }
    rt!("&str", s1.as_str(), &str);
    rt!("(&str, u32)", (s1.as_str(), 7u32), (&str, u32));
    rt!("Vec<&str>", vec![s1.as_str(), s2.as_str()], Vec<&str>);
    rt!("Option<&str>", Some(s2.as_str()), Option<&str>);
    rt!("BTreeMap<&str, i32>", [(s1.as_str(), 1), (s2.as_str(), -2)].into_iter().collect(), std::collections::BTreeMap<&str, i32>);
    rt!("&serde_bytes::Bytes", serde_bytes::Bytes::new(&bytes[..]), &serde_bytes::Bytes);
    rt!("Borrowing", Borrowing { name: s1.as_str(), raw: serde_bytes::Bytes::new(&bytes[..]), n }, Borrowing<'_>);
    rt!("BorrowingEnum::Text", BorrowingEnum::Text(s2.as_str()), BorrowingEnum<'_>);
    rt!("BorrowingEnum::Pair", BorrowingEnum::Pair(s1.as_str(), n), BorrowingEnum<'_>);
}

/// One very long string (beyond any buffer a reader might recycle) followed by
/// more strings and names in the same text.
fn huge_strings(rep: &mut Report, rng: &mut Rng, max: usize) {
    use std::collections::BTreeMap;
    let n = match rng.below(4) {
        0 => rng.range(65_000, 66_000),
        1 => rng.range(130_000, 132_000),
        _ => rng.range(66_000, max),
    };
    let mut big = String::with_capacity(n + 8);
    let alphabet = ['a', 'b', ' ', '"', '\\', 'é', '中', '\n', 'z'];
    while big.len() < n {
        big.push(*rng.pick(&alphabet));
    }
    let small = crate::gen::gen_string(rng, 12);
    let mut m = BTreeMap::new();
    m.insert("k".to_string() + &crate::gen::gen_string(rng, 4), crate::gen::gen_string(rng, 8));
    m.insert(small.clone(), "v".to_string());
    let x: (String, String, BTreeMap<String, String>, Option<String>) = (big, small, m, Some("tail".into()));
    type T = (String, String, std::collections::BTreeMap<String, String>, Option<String>);
    rep.max("max_huge_string_len", n as u64);
    let routes: Vec<(&str, Result<Result<T, String>, panics::PanicInfo>)> = vec![
        ("to_string/from_str", panics::guarded(|| serde_lexpr::to_string(&x).map_err(|e| e.to_string()).and_then(|s| serde_lexpr::from_str::<T>(&s).map_err(|e| e.to_string())))),
        ("to_vec/from_slice", panics::guarded(|| serde_lexpr::to_vec(&x).map_err(|e| e.to_string()).and_then(|b| serde_lexpr::from_slice::<T>(&b).map_err(|e| e.to_string())))),
        ("to_vec/from_reader", panics::guarded(|| serde_lexpr::to_vec(&x).map_err(|e| e.to_string()).and_then(|b| serde_lexpr::from_reader::<T>(&b[..]).map_err(|e| e.to_string())))),
        ("to_value/from_value", panics::guarded(|| serde_lexpr::to_value(&x).map_err(|e| e.to_string()).and_then(|v| serde_lexpr::from_value::<T>(&v).map_err(|e| e.to_string())))),
    ];
    for (route, r) in routes {
        rep.eval();
        rep.distinct(hash2(hash_str(route), hash_str(&x.0)));
        match r {
            Err(p) => {
                if p.in_library() {
                    rep.violation("huge", format!("C04:panic:huge-string:{}", p.sig()), format!("via {}: {}", route, p.short()), json!({"len": n}));
                } else {
                    rep.inconclusive(format!("harness panic: {}", p.short()));
                }
                return;
            }
            Ok(Err(e)) => {
                rep.violation("huge", "C04:huge-string-route-error".into(), format!("a {}-byte string followed by more strings, via {}: {}", n, route, e.chars().take(300).collect::<String>()), json!({"len": n, "route": route}));
                return;
            }
            Ok(Ok(y)) => {
                if y != x {
                    let which = if y.0 != x.0 { "the long string itself" } else if y.1 != x.1 { "the string after it" } else if y.2 != x.2 { "the map after it" } else { "the option after it" };
                    rep.violation("huge", "C04:huge-string-route-differs".into(), format!("a {}-byte string followed by more strings, via {}: {} comes back different (second string {:?} -> {} chars)", n, route, which, show_str(&x.1), y.1.chars().count()), json!({"len": n, "route": route}));
                    return;
                }
                rep.count("huge:ok");
            }
        }
    }
}

/// f32 through to_value / from_value: the value route is exact for every bit pattern.
pub fn f32_block(rep: &mut Report, lo: u64, hi: u64, prop: &str) {
    let mut bad: Option<(u32, String)> = None;
    for bits in lo..hi {
        let x = f32::from_bits(bits as u32);
        let ok = match serde_lexpr::to_value(&x) {
            Ok(v) => {
                let shape_ok = match v.as_f64() {
                    Some(d) => v.as_number().map_or(false, |n| n.is_f64()) && (d.to_bits() == (x as f64).to_bits() || x.is_nan() && d.is_nan()),
                    None => false,
                };
                shape_ok
                    && match serde_lexpr::from_value::<f32>(&v) {
                        Ok(y) => y.to_bits() == x.to_bits() || (x.is_nan() && y.is_nan()),
                        Err(_) => false,
                    }
            }
            Err(_) => false,
        };
        if !ok && bad.is_none() {
            let detail = match serde_lexpr::to_value(&x) {
                Ok(v) => format!("{:?} (bits {:#010x}) -> {:?} -> {:?}", x, bits, v, serde_lexpr::from_value::<f32>(&v).map(|y| format!("{:?} (bits {:#010x})", y, y.to_bits())).map_err(|e| e.to_string())),
                Err(e) => format!("to_value({:?}) failed: {}", x, e),
            };
            bad = Some((bits as u32, detail));
        }
    }
    rep.evals(hi - lo);
    rep.distinct(lo);
    rep.count_n("f32-bit-patterns-enumerated", hi - lo);
    if let Some((bits, detail)) = bad {
        let class = if f32::from_bits(bits).is_nan() { "nan" } else if !f32::from_bits(bits).is_finite() { "infinite" } else if f32::from_bits(bits).is_normal() { "normal" } else { "subnormal-or-zero" };
        rep.violation("f32", format!("{}:f32-value-route-differs:{}", prop, class), detail, json!({"bits": bits}));
    }
}

pub fn sets(ctx: &Ctx) -> Vec<CaseSet> {
    let fam = family();
    let n = fam.len() as u64;
    let per = ctx.size(6_000, 180_000);
    let huge_max = ctx.size(200_000, 1_200_000) as usize;
    // every f32 bit pattern in thorough; in quick 2^24 of them: 256 blocks of 2^16 whose position depends on the seed
    let (f32_blocks, f32_block_len) = if ctx.thorough { (4096u64, 1u64 << 20) } else { (256u64, 1u64 << 16) };
    let f32_offset = if ctx.thorough { 0 } else { (ctx.seed % 256) << 16 };
    let thorough = ctx.thorough;
    vec![
        CaseSet::new("huge-strings-then-more-text", ctx.size(6, 48), Box::new(move |rep, rng, _| huge_strings(rep, rng, huge_max))),
        CaseSet::new(
            "f32-bit-patterns",
            f32_blocks,
            Box::new(move |rep, _rng, case| {
                let lo = if thorough { case * f32_block_len } else { case * (1u64 << 24) + f32_offset };
                f32_block(rep, lo, lo + f32_block_len, "C04");
            }),
        ),
        CaseSet::new("borrowed-targets", ctx.size(2_000, 100_000), Box::new(move |rep, rng, _| borrowed_targets(rep, rng))),
        CaseSet::new(
        "type-family-round-trips",
        n * per,
        Box::new(move |rep, rng, case| {
            let e = &fam[(case % n) as usize];
            (e.c04)(rep, rng);
        }),
    )]
}
