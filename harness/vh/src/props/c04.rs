//! C04 -- Serde round trip: Rust data -> S-expression -> Rust data is the identity.

use crate::fam::{family, Fam, G};
use crate::mon::panics;
use crate::props::PropDef;
use crate::report::{show_str, Report};
use crate::rng::{hash2, hash_str, Rng};
use crate::run::{CaseSet, Ctx};
use serde_json::json;

pub fn def() -> PropDef {
    PropDef {
        id: "C04",
        level: "exploration",
        rule: "cases = (type T from a family of 58 concrete Rust types (plus 9 borrowing targets such as &str, Vec<&str>, #[serde(borrow)] structs) covering every Serde data-model category and the shape-ambiguous nestings -- Option<Option<T>>, Option<()>, Option<Vec<T>>, Vec<Option<T>>, newtype variant around seq/option/unit/tuple/box-of-self vs tuple variant, empty tuple/struct variants, 1-tuples, [T;0], maps with integer/char/string keys, enums inside maps inside structs --, value of T from a recursive generator with boundary integers, arbitrary Unicode strings, empty and long collections, route in {to_value/from_value, to_string/from_str, to_vec/from_slice, to_writer/from_reader, and the three _custom pairs with default options}); all text routes must also produce the same text. non-trivial = one value taken through one route and compared on the Rust side; distinct = hash of (type, serialized text, route)",
        assumptions: &["equality on the Rust side is ==, except floats: bit-exact through values (NaN included), C05 rule through text in the fast-float build", "serde_derive's generated impls are correct"],
        nofast_too: false,
        min_quick: 100_000,
        min_thorough: 4_000_000,
        sets,
        post: None,
    }
}

fn short<T: std::fmt::Debug>(x: &T) -> String {
    let s = format!("{:?}", x);
    if s.chars().count() > 200 {
        format!("{}...", s.chars().take(200).collect::<String>())
    } else {
        s
    }
}

fn tname<T>() -> String {
    std::any::type_name::<T>().replace("alloc::string::", "").replace("alloc::vec::", "").replace("alloc::collections::btree::map::", "").replace("alloc::collections::btree::set::", "").replace("core::option::", "").replace("vh::fam::", "").replace("serde_bytes::bytebuf::", "").replace("alloc::boxed::", "")
}

pub fn run<T: Fam>(rep: &mut Report, rng: &mut Rng) {
    let name = tname::<T>();
    // ---- through values (non-finite floats allowed)
    let x = T::gen(rng, G { finite: false, depth: 0 });
    rep.eval();
    let r = panics::guarded(|| serde_lexpr::to_value(&x).map_err(|e| format!("to_value failed: {}", e)).and_then(|v| serde_lexpr::from_value::<T>(&v).map(|y| (v, y)).map_err(|e| format!("from_value failed: {}", e))));
    match r {
        Err(p) => {
            if p.in_library() {
                rep.violation("value-route", format!("C04:panic:{}:{}", name, p.sig()), format!("{} {}: {}", name, short(&x), p.short()), json!({"type": name}));
            } else {
                rep.inconclusive(format!("harness panic: {}", p.short()));
            }
            return;
        }
        Ok(Err(e)) => {
            rep.violation("value-route", format!("C04:value-route-error:{}", name), format!("{} value {}: {}", name, short(&x), e), json!({"type": name, "value": short(&x)}));
            return;
        }
        Ok(Ok((v, y))) => {
            rep.distinct(hash2(hash_str(&name), hash_str(&format!("{:?}", v))));
            if !x.same(&y, false) {
                rep.violation("value-route", format!("C04:value-route-differs:{}", name), format!("{}: {} -> {} -> {}", name, short(&x), crate::props::common::dbg_value(&v), short(&y)), json!({"type": name, "value": short(&x)}));
                return;
            }
        }
    }
    // ---- through text with the default printer and parser (finite floats)
    let x = T::gen(rng, G { finite: true, depth: 0 });
    let routes: Vec<(&str, Result<Result<(String, T), String>, panics::PanicInfo>)> = vec![
        ("to_string/from_str", panics::guarded(|| serde_lexpr::to_string(&x).map_err(|e| format!("to_string failed: {}", e)).and_then(|s| serde_lexpr::from_str::<T>(&s).map(|y| (s.clone(), y)).map_err(|e| format!("from_str failed on {:?}: {}", show_str(&s), e))))),
        ("to_vec/from_slice", panics::guarded(|| serde_lexpr::to_vec(&x).map_err(|e| format!("to_vec failed: {}", e)).and_then(|b| serde_lexpr::from_slice::<T>(&b).map(|y| (String::from_utf8_lossy(&b).to_string(), y)).map_err(|e| format!("from_slice failed on {:?}: {}", crate::report::show(&b), e))))),
        ("to_writer/from_reader", panics::guarded(|| {
            let mut w = Vec::new();
            serde_lexpr::to_writer(&mut w, &x).map_err(|e| format!("to_writer failed: {}", e))?;
            serde_lexpr::from_reader::<T>(&w[..]).map(|y| (String::from_utf8_lossy(&w).to_string(), y)).map_err(|e| format!("from_reader failed on {:?}: {}", crate::report::show(&w), e))
        })),
        ("to_vec_custom/from_slice_custom(default)", panics::guarded(|| serde_lexpr::to_vec_custom(&x, lexpr::print::Options::default()).map_err(|e| e.to_string()).and_then(|b| serde_lexpr::from_slice_custom::<T>(&b, lexpr::parse::Options::default()).map(|y| (String::from_utf8_lossy(&b).to_string(), y)).map_err(|e| format!("from_slice_custom failed on {:?}: {}", crate::report::show(&b), e))))),
        ("to_writer_custom/from_reader_custom(default)", panics::guarded(|| {
            let mut w = Vec::new();
            serde_lexpr::to_writer_custom(&mut w, &x, lexpr::print::Options::default()).map_err(|e| format!("to_writer_custom failed: {}", e))?;
            serde_lexpr::from_reader_custom::<T>(&w[..], lexpr::parse::Options::default()).map(|y| (String::from_utf8_lossy(&w).to_string(), y)).map_err(|e| format!("from_reader_custom failed on {:?}: {}", crate::report::show(&w), e))
        })),
        ("to_string_custom/from_str_custom(default)", panics::guarded(|| serde_lexpr::to_string_custom(&x, lexpr::print::Options::default()).map_err(|e| e.to_string()).and_then(|s| serde_lexpr::from_str_custom::<T>(&s, lexpr::parse::Options::default()).map(|y| (s.clone(), y)).map_err(|e| format!("from_str_custom failed on {:?}: {}", show_str(&s), e))))),
    ];
    let mut first_text: Option<String> = None;
    for (route, r) in routes {
        rep.eval();
        if let Ok(Ok((s, _))) = &r {
            match &first_text {
                None => first_text = Some(s.clone()),
                Some(t) if t != s => {
                    rep.violation("text-route", format!("C04:text-routes-print-differently:{}", name), format!("{}: {} printed {:?} by to_string but {:?} via {}", name, short(&x), show_str(t), show_str(s), route), json!({"type": name, "route": route}));
                    return;
                }
                _ => {}
            }
        }
        match r {
            Err(p) => {
                if p.in_library() {
                    rep.violation("text-route", format!("C04:panic:{}:{}", name, p.sig()), format!("{} via {}: {}", name, route, p.short()), json!({"type": name}));
                } else {
                    rep.inconclusive(format!("harness panic: {}", p.short()));
                }
                return;
            }
            Ok(Err(e)) => {
                rep.violation("text-route", format!("C04:text-route-error:{}", name), format!("{} via {} value {}: {}", name, route, short(&x), e), json!({"type": name, "route": route}));
                return;
            }
            Ok(Ok((s, y))) => {
                rep.distinct(hash2(hash_str(&name), hash2(hash_str(&s), hash_str(route))));
                if !x.same(&y, true) {
                    rep.violation("text-route", format!("C04:text-route-differs:{}", name), format!("{} via {}: {} -> {:?} -> {}", name, route, short(&x), show_str(&s), short(&y)), json!({"type": name, "route": route, "text": s}));
                    return;
                }
                if rep.want_sample() && route == "to_string/from_str" {
                    rep.sample(json!({"type": name, "text": show_str(&s)}));
                }
            }
        }
    }
    rep.count(&format!("type:{}", name));
}

#[derive(serde_derive::Serialize, serde_derive::Deserialize, Debug, PartialEq)]
struct Borrowing<'a> {
    #[serde(borrow)]
    name: &'a str,
    #[serde(borrow)]
    raw: &'a serde_bytes::Bytes,
    n: u8,
}

#[derive(serde_derive::Serialize, serde_derive::Deserialize, Debug, PartialEq)]
enum BorrowingEnum<'a> {
    #[serde(borrow)]
    Text(&'a str),
    Pair(&'a str, u8),
}

/// Zero-copy targets: from_value::<'a, T: Deserialize<'a>> must hand out borrows of the value.
fn borrowed_targets(rep: &mut Report, rng: &mut Rng) {
    let s1 = crate::gen::gen_string(rng, 10);
    let s2 = crate::gen::gen_string(rng, 6);
    let bytes = crate::gen::gen_bytes(rng, 8);
    let n = rng.below(256) as u8;
    macro_rules! rt {
        ($name:expr, $x:expr, $t:ty) => {{
            rep.eval();
            let x: $t = $x;
            match crate::mon::panics::guarded(|| serde_lexpr::to_value(&x).map_err(|e| e.to_string())) {
                Ok(Ok(v)) => match serde_lexpr::from_value::<$t>(&v) {
                    Ok(y) if y == x => {
                        rep.distinct(hash2(hash_str($name), hash_str(&format!("{:?}", v))));
                        rep.count(concat!("borrowed:", $name));
                    }
                    Ok(y) => rep.violation("borrowed", format!("C04:borrowed-differs:{}", $name), format!("{}: {:?} -> {} -> {:?}", $name, x, crate::props::common::dbg_value(&v), y), json!({"type": $name})),
                    Err(e) => rep.violation("borrowed", format!("C04:borrowed-target-error:{}", $name), format!("{}: {:?} serializes to {} which does not deserialize into the borrowing target: {}", $name, x, crate::props::common::dbg_value(&v), e), json!({"type": $name})),
                },
                Ok(Err(e)) => rep.violation("borrowed", format!("C04:borrowed-to_value-error:{}", $name), e, json!({"type": $name})),
                Err(p) => {
                    if p.in_library() {
                        rep.violation("borrowed", format!("C04:panic:{}", p.sig()), p.short(), json!({"type": $name}))
                    } else {
                        rep.inconclusive(format!("harness panic: {}", p.short()))
                    }
                }
            }
        }};
    }
    rt!("&str", s1.as_str(), &str);
    rt!("(&str, u32)", (s1.as_str(), 7u32), (&str, u32));
    rt!("Vec<&str>", vec![s1.as_str(), s2.as_str()], Vec<&str>);
    rt!("Option<&str>", Some(s2.as_str()), Option<&str>);
    rt!("BTreeMap<&str, i32>", [(s1.as_str(), 1), (s2.as_str(), -2)].into_iter().collect(), std::collections::BTreeMap<&str, i32>);
    rt!("&serde_bytes::Bytes", serde_bytes::Bytes::new(&bytes[..]), &serde_bytes::Bytes);
    rt!("Borrowing", Borrowing { name: s1.as_str(), raw: serde_bytes::Bytes::new(&bytes[..]), n }, Borrowing<'_>);
    rt!("BorrowingEnum::Text", BorrowingEnum::Text(s2.as_str()), BorrowingEnum<'_>);
    rt!("BorrowingEnum::Pair", BorrowingEnum::Pair(s1.as_str(), n), BorrowingEnum<'_>);
}

pub fn sets(ctx: &Ctx) -> Vec<CaseSet> {
    let fam = family();
    let n = fam.len() as u64;
    let per = ctx.size(6_000, 180_000);
    vec![
        CaseSet::new("borrowed-targets", ctx.size(2_000, 100_000), Box::new(move |rep, rng, _| borrowed_targets(rep, rng))),
        CaseSet::new(
        "type-family-round-trips",
        n * per,
        Box::new(move |rep, rng, case| {
            let e = &fam[(case % n) as usize];
            (e.c04)(rep, rng);
        }),
    )]
}
