//! C02 -- round trip holds for every consistent printer/parser dialect pairing.
//!
//! Oracle: fold(v, P, Q) -- the documented dialect folding -- compared with
//! parse_Q(print_P(v)); for the Emacs pair additionally the independent Emacs
//! Lisp reference reader.

use crate::gen::{self, GenCfg, NameCtx, Tables};
use crate::model::cmp::{contains_bytes, fold, veq, FloatRule};
use crate::model::reader::{self, Dialect};
use crate::mon::panics;
use crate::opts::{compatible, PBytes, PKw, Syn, KW_POSTFIX, KW_PREFIX, N_P, N_Q, P, Q};
use crate::props::common::*;
use crate::props::PropDef;
use crate::report::{show_str, Report};
use crate::rng::{hash2, hash_str, Rng};
use crate::run::{CaseSet, Ctx};
use lexpr::Value;
use serde_json::json;
use std::sync::Arc;

pub fn def() -> PropDef {
    PropDef {
        id: "C02",
        level: "exploration",
        rule: "cases = (printer option set P, compatible parser option set Q, value): all 576 P; Q ranges over the parser sets that recognise P's output (keyword spelling enabled, bracket meaning matching the vector style, same string and char syntax; nil/t/racket/digit free) -- all of them in thorough (exhaustive over configurations), 6 sampled per P in quick; values from G with names plain for that (P,Q); plus dedicated streams on default/default and elisp()/elisp() (the latter also through the independent Emacs Lisp reference reader). non-trivial = one (P,Q,value) round trip judged against fold(); distinct = hash of (printed text, P, Q)",
        assumptions: &["fold() encodes exactly the folding the statement documents", "for P with Emacs byte syntax but R6RS strings no parser recognises byte vectors: such values are skipped there (counted)"],
        nofast_too: false,
        min_quick: 50_000,
        min_thorough: 2_000_000,
        sets,
        post: None,
    }
}

pub fn name_ctx(p: &P, q: &Q) -> NameCtx {
    NameCtx {
        colon_prefix_kw: q.kw & KW_PREFIX != 0 || p.kw == PKw::Prefix,
        colon_postfix_kw: q.kw & KW_POSTFIX != 0 || p.kw == PKw::Postfix,
        elisp_chars: q.chr == Syn::Elisp || p.chr == Syn::Elisp,
        nil_special: true, // the tokens nil/t are never used as names where they could be special on either side
        t_special: true,
    }
}

pub fn compatible_qs(p: &P) -> Vec<Q> {
    (0..N_Q).map(Q::from_index).filter(|q| compatible(p, q)).collect()
}

fn facet(leaf: &Value, p: &P, q: &Q) -> String {
    match leaf {
        Value::Bytes(_) => format!("bytes={:?},vec={}", p.bytes, if p.vec_brackets { "[]" } else { "#()" }),
        Value::Keyword(_) => format!("kw={:?}", p.kw),
        Value::Nil => format!("nil={:?}/q.nil={:?}", p.nil, q.nil),
        Value::Bool(_) => format!("bool={}/q.t={},q.nil={:?}", if p.bool_symbol { "sym" } else { "tok" }, q.t_true, q.nil),
        Value::Char(_) => format!("chr={:?}", p.chr),
        Value::String(_) => format!("str={:?}", p.string),
        Value::Vector(_) => format!("vec={}", if p.vec_brackets { "[]" } else { "#()" }),
        Value::Symbol(_) => format!("digit={},q.kw={}", q.digit, q.kw),
        _ => String::new(),
    }
}

/// None if fine; Some((kind, detail)).
fn failure(v: &Value, p: &P, q: &Q, reference: bool) -> Option<(String, String)> {
    let text = match panics::guarded(|| lexpr::to_string_custom(v, p.to_lexpr())) {
        Ok(Ok(t)) => t,
        Ok(Err(e)) => return Some(("print-error".into(), e.to_string())),
        Err(pn) => return Some((format!("print-panic:{}", pn.sig()), pn.short())),
    };
    let want = fold(v, p, q);
    match lexpr::from_str_custom(&text, q.to_lexpr()) {
        Ok(got) => {
            if let Err(d) = veq(&want, &got, FloatRule::RoundTripFast) {
                return Some(("differs".into(), format!("printed {:?}; {}", show_str(&text), d)));
            }
        }
        Err(e) => return Some((format!("parse-error:{}", err_kind(&e)), format!("printed {:?} is rejected: {}", show_str(&text), e))),
    }
    if reference {
        match reader::read_one(&text, Dialect::Elisp) {
            Ok(got) => {
                if let Err(d) = veq(&want, &got, FloatRule::Bits) {
                    return Some(("reference-differs".into(), format!("Emacs Lisp reference reader reads {:?} differently: {}", show_str(&text), d)));
                }
            }
            Err(e) => return Some(("reference-rejects".into(), format!("Emacs Lisp reference reader rejects {:?}: {}", show_str(&text), e))),
        }
    }
    None
}

fn check(rep: &mut Report, v: &Value, p: &P, q: &Q, reference: bool) {
    if p.bytes == PBytes::Elisp && q.string != Syn::Elisp && contains_bytes(v) {
        rep.count("skipped_unreadable:bytes-as-elisp-string-under-r6rs-strings");
        return;
    }
    rep.eval();
    match failure(v, p, q, reference) {
        None => {
            let text = lexpr::to_string_custom(v, p.to_lexpr()).unwrap_or_default();
            rep.distinct(hash2(hash_str(&text), (p.index() * N_Q + q.index()) as u64));
            sample_if_room(rep, || json!({"P": p.describe(), "Q": q.describe(), "text": show_str(&text)}));
        }
        Some((kind, _)) => {
            let k0 = kind.clone();
            let small = shrink(v, &|x| failure(x, p, q, reference).map_or(false, |(k, _)| k == k0));
            let (kind, detail) = failure(&small, p, q, reference).unwrap_or((kind, "(not reproduced on shrunk value)".into()));
            rep.violation(
                "roundtrip",
                format!("C02:{}:{}:{}", kind, leaf_class(&small), facet(&small, p, q)),
                format!("{} -> {} : value {} : {}", p.describe(), q.describe(), dbg_value(&small), detail),
                json!({"p_index": p.index(), "q_index": q.index(), "value": dbg_value(&small)}),
            );
        }
    }
}

fn gen_for(rng: &mut Rng, tb: &Tables, p: &P, q: &Q, depth: u32) -> Value {
    let mut cfg = GenCfg::default_dialect();
    cfg.max_depth = depth;
    cfg.max_items = 4;
    cfg.max_str = 8;
    cfg.name_ctx = name_ctx(p, q);
    match rng.below(4) {
        0 => gen::gen_atom(rng, &cfg, tb),
        _ => gen::gen_value(rng, &cfg, tb, 0),
    }
}

pub fn sets(ctx: &Ctx) -> Vec<CaseSet> {
    let tb = Arc::new(Tables::new());
    let mut out = Vec::new();
    let thorough = ctx.thorough;

    // all 576 P x compatible Q
    let tb1 = tb.clone();
    let per_pair = ctx.size(100, 240);
    out.push(CaseSet::new(
        "all-printer-sets-x-compatible-parser-sets",
        N_P as u64,
        Box::new(move |rep, rng, case| {
            let p = P::from_index(case as usize);
            let qs = compatible_qs(&p);
            rep.max("max_compatible_q_per_p", qs.len() as u64);
            let chosen: Vec<Q> = if thorough { qs.clone() } else { (0..6).map(|_| qs[rng.below(qs.len())]).collect() };
            rep.count_n("pairs", chosen.len() as u64);
            for q in chosen.iter() {
                for _ in 0..per_pair {
                    let v = gen_for(rng, &tb1, &p, q, 3);
                    check(rep, &v, &p, q, false);
                }
            }
        }),
    ));

    // the two named pairs, deeper
    let tb2 = tb.clone();
    out.push(CaseSet::new(
        "elisp-pair",
        ctx.size(240_000, 5_000_000),
        Box::new(move |rep, rng, _| {
            let (p, q) = (P::elisp(), Q::elisp());
            let v = gen_for(rng, &tb2, &p, &q, 5);
            check(rep, &v, &p, &q, true);
        }),
    ));
    let tb3 = tb.clone();
    out.push(CaseSet::new(
        "default-pair",
        ctx.size(120_000, 4_000_000),
        Box::new(move |rep, rng, _| {
            let (p, q) = (P::default_(), Q::default_());
            let v = gen_for(rng, &tb3, &p, &q, 5);
            check(rep, &v, &p, &q, false);
        }),
    ));
    // sizes at and around powers of two (buffer capacities, chunk sizes): byte vectors,
    // strings, names, lists and vectors of exactly that many elements
    let n_sizes_p = ctx.size(24, N_P as u64);
    out.push(CaseSet::new(
        "sizes-around-powers-of-two",
        n_sizes_p,
        Box::new(move |rep, rng, case| {
            let p = if thorough { P::from_index(case as usize) } else { P::from_index(rng.below(N_P)) };
            let qs = compatible_qs(&p);
            let q = qs[rng.below(qs.len())];
            let mut sizes: Vec<usize> = Vec::new();
            for k in [8u32, 10, 11, 12, 13] {
                for d in [-1i64, 0, 1] {
                    sizes.push(((1i64 << k) + d) as usize);
                }
            }
            if thorough {
                sizes.extend([16383, 16384, 16385, 65535, 65536, 65537, 3 * 1024, 5 * 4096]);
            }
            for n in sizes {
                rep.max("max_sized_atom", n as u64);
                let vs = [
                    Value::bytes((0..n).map(|i| (i * 7 + n) as u8).collect::<Vec<u8>>()),
                    Value::string((0..n).map(|i| if i % 97 == 0 { 'é' } else { (b'a' + (i % 26) as u8) as char }).collect::<String>()),
                    Value::symbol("s".repeat(n)),
                    Value::list((0..n).map(|i| Value::from((i % 1000) as u32)).collect::<Vec<_>>()),
                    Value::vector((0..n).map(|i| Value::from((i % 7) as u32)).collect::<Vec<_>>()),
                ];
                for v in vs.iter() {
                    check(rep, v, &p, &q, false);
                }
            }
        }),
    ));
    // wide values: hundreds of siblings, many of them empty compounds and empty atoms
    let tbw = tb.clone();
    out.push(CaseSet::new(
        "wide-with-empties",
        ctx.size(2_000, 100_000),
        Box::new(move |rep, rng, _| {
            let p = P::from_index(rng.below(N_P));
            let qs = compatible_qs(&p);
            let q = qs[rng.below(qs.len())];
            let n = rng.range(130, 420);
            let favourite = rng.below(6);
            let items: Vec<Value> = (0..n)
                .map(|_| match if rng.chance(2, 3) { favourite } else { rng.below(7) } {
                    0 => Value::vector(Vec::<Value>::new()),
                    1 => Value::Null,
                    2 => Value::string(""),
                    3 => Value::bytes(Vec::<u8>::new()),
                    4 => Value::list(vec![Value::vector(Vec::<Value>::new())]),
                    5 => Value::vector(vec![Value::Null]),
                    _ => gen_for(rng, &tbw, &p, &q, 1),
                })
                .collect();
            let v = match rng.below(3) {
                0 => Value::list(items),
                1 => Value::vector(items),
                _ => Value::append(items, Value::symbol("z")),
            };
            rep.max("max_siblings", n as u64);
            check(rep, &v, &p, &q, false);
        }),
    ));
    // leaf tables through every P (first compatible Q and a random one)
    let tb4 = tb.clone();
    out.push(CaseSet::new(
        "leaf-tables-through-every-printer-set",
        N_P as u64,
        Box::new(move |rep, rng, case| {
            let p = P::from_index(case as usize);
            let qs = compatible_qs(&p);
            let q = qs[rng.below(qs.len())];
            let mut leaves: Vec<Value> = vec![Value::Nil, Value::Null, Value::Bool(true), Value::Bool(false), Value::bytes(Vec::<u8>::new()), Value::bytes(vec![0u8, 255, 34, 92]), Value::vector(Vec::<Value>::new()), Value::string(""), Value::keyword("k"), Value::keyword("λ"), Value::keyword("$a"), Value::keyword("+"), Value::symbol("+"), Value::symbol("-"), Value::symbol("..."), Value::symbol("a.b")];
            for c in gen::BOUNDARY_CHARS {
                leaves.push(Value::Char(*c));
                leaves.push(Value::string(format!("x{}y", c)));
            }
            for x in tb4.ints.iter().step_by(7) {
                leaves.push(Value::Number(gen::int_to_number(*x)));
            }
            for v in quote_shaped() {
                check(rep, &v, &p, &q, false);
            }
            for l in leaves {
                // in list / vector / dotted-tail context
                for v in [l.clone(), Value::list(vec![l.clone(), Value::symbol("z")]), Value::vector(vec![Value::symbol("z"), l.clone()]), Value::cons(Value::symbol("z"), l.clone())] {
                    check(rep, &v, &p, &q, false);
                }
            }
        }),
    ));
    out
}
