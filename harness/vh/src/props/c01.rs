//! C01 -- print then parse returns the same value (default Scheme dialect).
//!
//! Oracles: (1) all print entry points give identical bytes; (2) every parse
//! entry point returns a value structurally equal to the original (floats by
//! the C05 rule of the build at hand); (3) the independent R7RS reference
//! reader reads the printed text as the same datum.

use crate::gen::{self, GenCfg, Tables};
use crate::model::cmp::{veq, FloatRule};
use crate::model::reader::{self, Dialect};
use crate::mon::io::{ChunkReader, Chunking};
use crate::props::common::*;
use crate::props::PropDef;
use crate::report::{show_str, Report};
use crate::rng::{hash_str, Rng};
use crate::run::{CaseSet, Ctx};
use lexpr::{Parser, Value};
use serde_json::json;
use std::io::Cursor;
use std::sync::Arc;

pub fn def() -> PropDef {
    PropDef {
        id: "C01",
        level: "exploration",
        rule: "cases = values from generator G (all 11 kinds, proper/dotted/merging lists, vectors, R7RS-plain names incl. peculiar identifiers and Unicode initials, finite floats by shape of shortest form, boundary integers, every char class) crossed with 9 print and 9 parse entry points, in both feature builds; plus dedicated leaf-class streams, deep (<=100) and long values; thorough enumerates every Unicode scalar value as a Char and as a one-character string. non-trivial = a value whose printed text was re-read by every entry point and by the reference reader; distinct = hash of the printed text",
        assumptions: &[
            "the reference Scheme reader (model::reader) implements R7RS 7.1.1 + documented extensions correctly",
            "Rust's str::parse::<f64> is correctly rounded",
        ],
        nofast_too: true,
        min_quick: 20_000,
        min_thorough: 1_000_000,
        sets,
        post: None,
    }
}

pub fn float_rule(ctx_nofast: bool) -> FloatRule {
    if ctx_nofast {
        FloatRule::Bits
    } else {
        FloatRule::RoundTripFast
    }
}

/// All print entry points; Ok(bytes) if they agree, Err(description) otherwise.
pub fn print_all(v: &Value) -> Result<Vec<u8>, String> {
    let a = lexpr::to_string(v).map_err(|e| format!("to_string failed: {}", e))?;
    let entries: Vec<(&str, Vec<u8>)> = vec![
        ("to_vec", lexpr::to_vec(v).map_err(|e| e.to_string())?),
        ("to_writer", {
            let mut w = Vec::new();
            lexpr::to_writer(&mut w, v).map_err(|e| e.to_string())?;
            w
        }),
        ("Printer::print", {
            let mut p = lexpr::Printer::new(Vec::new());
            p.print(v).map_err(|e| e.to_string())?;
            p.into_inner()
        }),
        ("to_string_custom(default)", lexpr::to_string_custom(v, lexpr::print::Options::default()).map_err(|e| e.to_string())?.into_bytes()),
        ("to_vec_custom(default)", lexpr::to_vec_custom(v, lexpr::print::Options::default()).map_err(|e| e.to_string())?),
        ("to_writer_custom(default)", {
            let mut w = Vec::new();
            lexpr::to_writer_custom(&mut w, v, lexpr::print::Options::default()).map_err(|e| e.to_string())?;
            w
        }),
        ("to_writer(sink accepting 1 byte per call)", {
            let mut w = crate::mon::io::ShortWriter::new(crate::mon::io::WriteSchedule::Max(1), Rng::new(1, "c01-sink", 0, 0));
            lexpr::to_writer(&mut w, v).map_err(|e| e.to_string())?;
            w.out
        }),
        ("Printer::print(sink accepting 3 bytes per call)", {
            let mut p = lexpr::Printer::new(crate::mon::io::ShortWriter::new(crate::mon::io::WriteSchedule::Max(3), Rng::new(1, "c01-sink", 0, 1)));
            p.print(v).map_err(|e| e.to_string())?;
            p.into_inner().out
        }),
        ("Display", format!("{}", v).into_bytes()),
        ("ToString", v.to_string().into_bytes()),
    ];
    for (name, b) in entries.iter() {
        if b.as_slice() != a.as_bytes() {
            return Err(format!("{} gives {:?} but to_string gives {:?}", name, String::from_utf8_lossy(b), a));
        }
    }
    Ok(a.into_bytes())
}

/// All parse entry points on `text`; each result.
pub fn parse_all(text: &str, rng: &mut Rng) -> Vec<(&'static str, Result<Value, lexpr::parse::Error>)> {
    let bytes = text.as_bytes();
    vec![
        ("from_str", lexpr::from_str(text)),
        ("from_slice", lexpr::from_slice(bytes)),
        ("from_reader(Cursor)", lexpr::from_reader(Cursor::new(bytes))),
        ("from_reader(1-byte chunks)", lexpr::from_reader(ChunkReader::new(bytes, Chunking::One, true, rng.fork()))),
        ("from_reader(BufReader cap 3)", lexpr::from_reader(std::io::BufReader::with_capacity(3, ChunkReader::new(bytes, Chunking::Random, false, rng.fork())))),
        ("str::parse::<Value>", text.parse::<Value>()),
        ("Parser::from_str+expect_value+expect_end", {
            let mut p = Parser::from_str(text);
            p.expect_value().and_then(|v| p.expect_end().map(|_| v))
        }),
        ("datum::from_str().value()", lexpr::datum::from_str(text).map(|d| d.value().clone())),
        ("Parser::from_slice.value_iter", {
            let mut p = Parser::from_slice(bytes);
            let mut it = p.value_iter();
            match it.next() {
                Some(r) => r,
                None => Ok(Value::symbol("<<no value>>")),
            }
        }),
    ]
}

/// The full C01 check of one value; returns a description of the first failure.
pub fn roundtrip_failure(v: &Value, rule: FloatRule, rng: &mut Rng, with_reference: bool) -> Option<(String, String)> {
    let bytes = match print_all(v) {
        Ok(b) => b,
        Err(e) => return Some(("print-entries-differ".into(), e)),
    };
    let text = match String::from_utf8(bytes) {
        Ok(t) => t,
        Err(_) => return Some(("printed-invalid-utf8".into(), "printer produced invalid UTF-8".into())),
    };
    for (name, r) in parse_all(&text, rng) {
        match r {
            Ok(got) => {
                if let Err(d) = veq(v, &got, rule) {
                    return Some(("differs".into(), format!("{} of {:?}: {}", name, show_str(&text), d)));
                }
            }
            Err(e) => {
                return Some((format!("parse-error:{}", err_kind(&e)), format!("{} rejects printed text {:?}: {}", name, show_str(&text), e)));
            }
        }
    }
    if with_reference {
        match reader::read_one(&text, Dialect::Scheme) {
            Ok(got) => {
                if let Err(d) = veq(v, &got, FloatRule::Bits) {
                    return Some(("reference-differs".into(), format!("reference reader reads {:?} differently: {}", show_str(&text), d)));
                }
            }
            Err(e) => return Some(("reference-rejects".into(), format!("reference reader rejects {:?}: {}", show_str(&text), e))),
        }
    }
    None
}

pub fn check_value(rep: &mut Report, v: &Value, rule: FloatRule, rng: &mut Rng, class: &str) {
    rep.eval();
    let mut r2 = rng.fork();
    match roundtrip_failure(v, rule, rng, true) {
        None => {
            let text = lexpr::to_string(v).unwrap_or_default();
            rep.distinct(hash_str(&text));
            rep.count(&format!("ok:{}", class));
            sample_if_room(rep, || json!({"class": class, "text": show_str(&text)}));
        }
        Some((kind, _)) => {
            // shrink to a smallest failing sub-value for a narrow signature
            let kind0 = kind.clone();
            let small = shrink(v, &|x| roundtrip_failure(x, rule, &mut Rng::new(0, "shrink", 0, 0), true).map_or(false, |(k, _)| k == kind0));
            let (kind, detail) = roundtrip_failure(&small, rule, &mut r2, true).unwrap_or((kind, "(failure not reproduced on shrunk value)".into()));
            let sig = format!("C01:{}:{}", kind, leaf_class(&small));
            let text = lexpr::to_string(&small).unwrap_or_default();
            rep.violation(
                "roundtrip",
                sig,
                format!("value {} : {}", dbg_value(&small), detail),
                json!({"printed": show_str(&text), "printed_hex": crate::report::hex(text.as_bytes()), "value": dbg_value(&small)}),
            );
        }
    }
}

fn leaf_stream(rng: &mut Rng, tb: &Tables, cfg: &GenCfg, which: u64) -> (Value, &'static str) {
    match which % 9 {
        0 => (Value::Char(gen::gen_char(rng)), "char"),
        1 => (Value::string(gen::gen_string(rng, 24)), "string"),
        2 => (Value::Number(gen::int_to_number(gen::gen_int(rng, &tb.ints))), "int"),
        3 | 4 => (Value::from(gen::gen_f64(rng)), "float"),
        5 => (Value::bytes(gen::gen_bytes(rng, 40)), "bytes"),
        6 => (Value::symbol(gen::gen_name(rng, cfg)), "symbol"),
        7 => (Value::keyword(gen::gen_name(rng, cfg)), "keyword"),
        _ => {
            // one leaf inside each container position
            let leaf = gen::gen_atom(rng, cfg, tb);
            let other = gen::gen_atom(rng, cfg, tb);
            let v = match rng.below(5) {
                0 => Value::list(vec![leaf, other]),
                1 => Value::list(vec![other, leaf]),
                2 => Value::cons(other, leaf),
                3 => Value::vector(vec![leaf, other]),
                _ => Value::list(vec![Value::vector(vec![Value::cons(other, leaf)])]),
            };
            (v, "leaf-in-context")
        }
    }
}

pub fn sets(ctx: &Ctx) -> Vec<CaseSet> {
    let tb = Arc::new(Tables::new());
    let cfg = Arc::new(GenCfg::default_dialect());
    let rule = float_rule(ctx.nofast);
    let mut out = Vec::new();

    let (tb1, cfg1) = (tb.clone(), cfg.clone());
    out.push(CaseSet::new(
        "values",
        ctx.size(36_000, 2_800_000),
        Box::new(move |rep, rng, _| {
            let v = gen::gen_value(rng, &cfg1, &tb1, 0);
            if rep.samples.len() < 3 {
                gen::count_kinds(&v, rep, "kind:");
            }
            check_value(rep, &v, rule, rng, "tree");
        }),
    ));

    let (tb2, cfg2) = (tb.clone(), cfg.clone());
    out.push(CaseSet::new(
        "leaf-classes",
        ctx.size(90_000, 6_000_000),
        Box::new(move |rep, rng, case| {
            let (v, class) = leaf_stream(rng, &tb2, &cfg2, case);
            check_value(rep, &v, rule, rng, class);
        }),
    ));

    // every boundary integer and every boundary char, deterministically
    let tb3 = tb.clone();
    out.push(CaseSet::new(
        "boundary-tables",
        1,
        Box::new(move |rep, rng, _| {
            for x in tb3.ints.iter() {
                check_value(rep, &Value::Number(gen::int_to_number(*x)), rule, rng, "table-int");
            }
            for c in gen::BOUNDARY_CHARS {
                check_value(rep, &Value::Char(*c), rule, rng, "table-char");
                check_value(rep, &Value::string(c.to_string()), rule, rng, "table-1char-string");
                check_value(rep, &Value::string(format!("a{}b", c)), rule, rng, "table-1char-string");
            }
            for b in 0..=255u8 {
                check_value(rep, &Value::bytes(vec![b]), rule, rng, "table-byte");
            }
            check_value(rep, &Value::bytes((0..=255u8).collect::<Vec<u8>>()), rule, rng, "table-byte");
            // values shaped like quotation forms (what a shorthand expands to) and their near misses
            for v in crate::props::common::quote_shaped() {
                check_value(rep, &v, rule, rng, "quote-shaped");
            }
        }),
    ));

    let (tb4, cfg4) = (tb.clone(), cfg.clone());
    out.push(CaseSet::new(
        "deep",
        ctx.size(150, 2_000),
        Box::new(move |rep, rng, _| {
            let d = rng.range(20, 100) as u32;
            let v = gen::gen_deep(rng, &cfg4, &tb4, d);
            rep.max("max_depth_generated", d as u64);
            check_value(rep, &v, rule, rng, "deep");
        }),
    ));

    let (tb5, cfg5) = (tb.clone(), cfg.clone());
    let long_len = ctx.size(3_000, 100_000) as usize;
    out.push(CaseSet::new(
        "long",
        ctx.size(6, 60),
        Box::new(move |rep, rng, _| {
            let n = rng.range(long_len / 2, long_len);
            let items: Vec<Value> = (0..n).map(|_| gen::gen_atom(rng, &cfg5, &tb5)).collect();
            let v = if rng.bool() { Value::list(items) } else { Value::append(items, Value::symbol("end")) };
            rep.max("max_list_len", n as u64);
            // long values: skip the (quadratic) datum entry point by checking a reduced set
            rep.eval();
            let text = lexpr::to_string(&v).unwrap();
            let mut bad = None;
            for (name, r) in [
                ("from_str", lexpr::from_str(&text)),
                ("from_slice", lexpr::from_slice(text.as_bytes())),
                ("from_reader", lexpr::from_reader(Cursor::new(text.as_bytes()))),
            ] {
                match r {
                    Ok(got) => {
                        if let Err(d) = veq(&v, &got, rule) {
                            bad = Some(format!("{}: {}", name, d));
                        }
                    }
                    Err(e) => bad = Some(format!("{}: {}", name, e)),
                }
            }
            match bad {
                None => {
                    rep.distinct(hash_str(&text));
                    rep.count("ok:long");
                }
                Some(_) => {
                    // fall back to the element-wise check for a narrow signature
                    for ch in children(&v) {
                        if roundtrip_failure(&ch, rule, rng, false).is_some() {
                            check_value(rep, &ch, rule, rng, "long-element");
                            return;
                        }
                    }
                    rep.violation("roundtrip", "C01:long-list-only".into(), format!("a {}-element list fails although each element round-trips", n), json!({"len": n}));
                }
            }
        }),
    ));

    // nesting right up to the documented limit (128) with every kind of leaf at the bottom
    let (tb8, cfg8) = (tb.clone(), cfg.clone());
    out.push(CaseSet::new(
        "at-the-nesting-limit",
        ctx.size(160, 2_000),
        Box::new(move |rep, rng, case| {
            let depth = 120 + (case as usize % 8); // 120..=127 enclosing compounds
            let leaf = match (case / 8) % 10 {
                0 => Value::bytes(vec![1u8, 2, 3]),
                1 => Value::bytes(Vec::<u8>::new()),
                2 => Value::vector(Vec::<Value>::new()),
                3 => Value::Null,
                4 => Value::string("s"),
                5 => Value::Char('c'),
                6 => Value::keyword("k"),
                7 => Value::from(1.5),
                8 => Value::Nil,
                _ => gen::gen_atom(rng, &cfg8, &tb8),
            };
            let mut v = leaf;
            for i in 0..depth {
                let _ = i;
                v = match rng.below(4) {
                    0 => Value::vector(vec![v]),
                    1 => Value::list(vec![Value::symbol("a"), v]),
                    // a dotted tail nests only when it is not itself a list
                    2 if !matches!(v, Value::Cons(_) | Value::Null) => Value::cons(Value::symbol("a"), v),
                    _ => Value::list(vec![v]),
                };
            }
            // a dotted tail that is itself a list merges into the chain and does not nest: count
            // the levels of the printed form (byte vectors are atoms)
            fn nest(v: &Value) -> usize {
                match v {
                    Value::Cons(c) => {
                        let mut m = 0;
                        let mut tail = &Value::Null;
                        for cell in c.iter() {
                            m = m.max(nest(cell.car()));
                            tail = cell.cdr();
                        }
                        1 + m.max(nest(tail))
                    }
                    Value::Vector(xs) => 1 + xs.iter().map(nest).max().unwrap_or(0),
                    // `()` is read through the list parser and costs a level
                    Value::Null => 1,
                    _ => 0,
                }
            }
            let max = nest(&v);
            rep.max("max_textual_nesting", max as u64);
            if max > 127 {
                return;
            }
            check_value(rep, &v, rule, rng, "nesting-limit");
        }),
    ));

    // one atom far longer than any buffer the reader may recycle, followed by more atoms
    let (tb7, cfg7) = (tb.clone(), cfg.clone());
    let huge_max = ctx.size(200_000, 1_500_000) as usize;
    out.push(CaseSet::new(
        "huge-atom-then-more-atoms",
        ctx.size(6, 60),
        Box::new(move |rep, rng, _| {
            let n = match rng.below(4) {
                0 => rng.range(65_000, 66_000),
                1 => rng.range(130_000, 132_000),
                _ => rng.range(66_000, huge_max),
            };
            let alphabet = ['a', 'b', ' ', '"', '\\', 'é', '中', '\n', 'z', '\u{7f}'];
            let mut big = String::with_capacity(n + 8);
            while big.len() < n {
                big.push(*rng.pick(&alphabet));
            }
            let first = match rng.below(4) {
                0 => Value::symbol(big.chars().filter(|c| c.is_alphanumeric()).collect::<String>()),
                1 => Value::bytes(big.into_bytes()),
                _ => Value::string(big),
            };
            let mut items = vec![first];
            for _ in 0..rng.range(2, 6) {
                items.push(gen::gen_atom(rng, &cfg7, &tb7));
            }
            items.push(Value::string("tail"));
            items.push(Value::symbol("end"));
            let v = if rng.bool() { Value::list(items) } else { Value::vector(items) };
            rep.max("max_huge_atom_len", n as u64);
            rep.eval();
            let text = lexpr::to_string(&v).unwrap();
            for (name, r) in [
                ("from_str", lexpr::from_str(&text)),
                ("from_slice", lexpr::from_slice(text.as_bytes())),
                ("from_reader", lexpr::from_reader(Cursor::new(text.as_bytes()))),
                ("datum::from_str", lexpr::datum::from_str(&text).map(|d| d.value().clone())),
                ("from_reader(3-byte chunks)", lexpr::from_reader(ChunkReader::new(text.as_bytes(), Chunking::Random, false, rng.fork()))),
            ] {
                let bad = match r {
                    Ok(got) => veq(&v, &got, rule).err().map(|d| d.chars().take(300).collect::<String>()),
                    Err(e) => Some(e.to_string()),
                };
                if let Some(d) = bad {
                    rep.violation("roundtrip", format!("C01:huge-atom:{}", name), format!("a {}-byte atom followed by {} more atoms, read by {}: {}", n, children(&v).len().saturating_sub(1), name, d), json!({"len": n, "entry": name}));
                    return;
                }
            }
            rep.distinct(hash_str(&text));
            rep.count("ok:huge-atom");
        }),
    ));

    // wide values: hundreds of sibling compound values at small depth
    let (tb6, cfg6) = (tb.clone(), cfg.clone());
    out.push(CaseSet::new(
        "wide",
        ctx.size(60, 1_500),
        Box::new(move |rep, rng, _| {
            let n = rng.range(130, 400);
            let items: Vec<Value> = (0..n)
                .map(|_| {
                    let a = gen::gen_atom(rng, &cfg6, &tb6);
                    match rng.below(5) {
                        0 => Value::vector(vec![a]),
                        1 => Value::list(vec![a]),
                        2 => Value::cons(a, gen::gen_atom(rng, &cfg6, &tb6)),
                        3 => Value::vector(vec![Value::list(vec![a])]),
                        _ => Value::list(vec![Value::vector(Vec::<Value>::new()), a]),
                    }
                })
                .collect();
            let v = match rng.below(3) {
                0 => Value::list(items),
                1 => Value::vector(items),
                _ => Value::list(vec![Value::symbol("wrap"), Value::vector(items)]),
            };
            rep.max("max_siblings", n as u64);
            check_value(rep, &v, rule, rng, "wide");
        }),
    ));

    // exhaustive in both tiers: every non-ASCII alphabetic scalar value as the
    // initial of a symbol, as a subsequent, after a sign and after sign-dot
    // (the "Unicode-alphabetic initials" of the identifier clause)
    {
        let all: Arc<Vec<char>> = Arc::new(gen::alpha_buckets().iter().flatten().copied().collect());
        let blocks = (all.len() as u64 + 511) / 512;
        out.push(CaseSet::new(
            "every-alphabetic-scalar-in-identifiers",
            blocks,
            Box::new(move |rep, rng, case| {
                let lo = (case * 512) as usize;
                let hi = (lo + 512).min(all.len());
                for &c in &all[lo..hi] {
                    let forms = [format!("{}", c), format!("{}x", c), format!("x{}", c), format!("-{}", c), format!("+.{}", c), format!(".{}", c)];
                    for (i, name) in forms.iter().enumerate() {
                        // the first three as symbol and keyword, the peculiar forms as symbols
                        let vs: Vec<Value> = if i < 3 { vec![Value::symbol(name.as_str()), Value::keyword(name.as_str())] } else { vec![Value::symbol(name.as_str())] };
                        for v in vs {
                            rep.eval();
                            let text = lexpr::to_string(&v).unwrap();
                            let ok = lexpr::from_str(&text).map_or(false, |g| veq(&v, &g, rule).is_ok())
                                && lexpr::from_reader(text.as_bytes()).map_or(false, |g| veq(&v, &g, rule).is_ok())
                                && reader::read_one(&text, Dialect::Scheme).map_or(false, |g| veq(&v, &g, FloatRule::Bits).is_ok());
                            if ok {
                                rep.distinct(hash_str(&text));
                            } else {
                                check_value(rep, &v, rule, rng, "alphabetic-scalar-identifier");
                            }
                        }
                    }
                }
                rep.count_n("alphabetic-scalars-enumerated", (hi - lo) as u64);
            }),
        ));
    }

    if ctx.thorough {
        // exhaustive: every Unicode scalar value as Char and as 1-char string
        let blocks = (0x110000u64 + 1023) / 1024;
        out.push(CaseSet::new(
            "all-scalar-values",
            blocks,
            Box::new(move |rep, rng, case| {
                for n in (case * 1024)..((case + 1) * 1024).min(0x110000) {
                    if let Some(c) = char::from_u32(n as u32) {
                        // cheap path: two parse entry points + reference reader
                        for v in [Value::Char(c), Value::string(c.to_string())] {
                            rep.eval();
                            let text = lexpr::to_string(&v).unwrap();
                            let ok = lexpr::from_str(&text).map_or(false, |g| veq(&v, &g, rule).is_ok())
                                && lexpr::from_reader(text.as_bytes()).map_or(false, |g| veq(&v, &g, rule).is_ok())
                                && reader::read_one(&text, Dialect::Scheme).map_or(false, |g| veq(&v, &g, FloatRule::Bits).is_ok());
                            if ok {
                                rep.distinct(hash_str(&text));
                            } else {
                                check_value(rep, &v, rule, rng, "scalar");
                            }
                        }
                    }
                }
                rep.count_n("scalar-values-enumerated", 1024.min(0x110000 - case * 1024));
            }),
        ));
    }
    out
}
