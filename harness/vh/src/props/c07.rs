//! C07 -- every output sink receives exactly the printed text; write errors surface.
//!
//! Oracle: the String returned by to_string_custom is the reference text; every
//! io::Write entry point must deliver exactly those bytes under any short-write
//! schedule, and under an injected hard error / zero-acceptance at byte offset k
//! must return Err with the delivered bytes a prefix of the text.

use crate::gen::{self, GenCfg, Tables};
use crate::mon::io::*;
use crate::opts::{N_P, P};
use crate::props::common::*;
use crate::props::PropDef;
use crate::report::{show, Report};
use crate::rng::{hash2, hash_bytes, Rng};
use crate::run::{CaseSet, Ctx};
use lexpr::{Printer, Value};
use serde_json::json;
use std::io::Write;
use std::sync::Arc;

pub fn def() -> PropDef {
    PropDef {
        id: "C07",
        level: "fault_enumeration",
        rule: "cases = (value, printer option set, entry point, sink schedule): values from G with numbers and byte vectors over-weighted; printer option sets (48 sampled in quick, all 576 in thorough); short-write schedules max=1,2,3,7,random, interrupting sink; a hard error and a zero-acceptance fault injected at EVERY byte offset 0..=len of the printed text (exhaustive per (value, options)); entry points to_writer, to_writer_custom, Printer::new/with_options + print, Display into a failing fmt sink, serde_lexpr::to_writer(_custom). non-trivial = one sink run judged against the reference text; distinct = hash of (text, options, entry, schedule, offset)",
        assumptions: &["to_string_custom's result is taken as the reference text (its own correctness is C01/C02/C17's subject)", "an io::Write sink may legally accept any non-zero prefix per call, return Interrupted, return Ok(0) or fail"],
        nofast_too: false,
        min_quick: 100_000,
        min_thorough: 5_000_000,
        sets,
        post: Some(post),
    }
}

fn post(_ctx: &Ctx, rep: &mut Report) {
    for k in ["faults:hard-error-injected", "faults:zero-accept-injected", "sink:short-writes-observed"] {
        if rep.counters.get(k).copied().unwrap_or(0) == 0 {
            rep.inconclusive(format!("monitor observed no events of kind {}", k));
        }
    }
}

#[derive(Clone, Copy, Debug, PartialEq)]
enum Entry {
    ToWriter,         // default options only
    PrinterNew,       // default options only
    ToWriterCustom,
    PrinterWithOptions,
}

impl Entry {
    fn name(&self) -> &'static str {
        match self {
            Entry::ToWriter => "to_writer",
            Entry::PrinterNew => "Printer::new.print",
            Entry::ToWriterCustom => "to_writer_custom",
            Entry::PrinterWithOptions => "Printer::with_options.print",
        }
    }
}

fn emit<W: Write>(e: Entry, w: W, v: &Value, p: &P) -> (std::io::Result<()>, W) {
    match e {
        Entry::ToWriter => {
            let mut w = w;
            let r = lexpr::to_writer(&mut w, v);
            (r, w)
        }
        Entry::PrinterNew => {
            let mut pr = Printer::new(w);
            let r = pr.print(v);
            (r, pr.into_inner())
        }
        Entry::ToWriterCustom => {
            let mut w = w;
            let r = lexpr::to_writer_custom(&mut w, v, p.to_lexpr());
            (r, w)
        }
        Entry::PrinterWithOptions => {
            let mut pr = Printer::with_options(w, p.to_lexpr());
            let r = pr.print(v);
            (r, pr.into_inner())
        }
    }
}

struct Obs {
    evals: u64,
    hard_faults: u64,
    zero_faults: u64,
    short_writes: u64,
    interrupts: u64,
    hashes: Vec<u64>,
}

/// Run all sink schedules for (v, p). Returns the first failure (kind, entry, detail).
fn sink_failure(v: &Value, p: &P, is_default: bool, rng: &mut Rng, every_offset: bool, obs: &mut Obs) -> Option<(String, &'static str, String)> {
    let full: Vec<u8> = match lexpr::to_string_custom(v, p.to_lexpr()) {
        Ok(s) => s.into_bytes(),
        Err(e) => return Some(("to_string_custom-failed".into(), "to_string_custom", e.to_string())),
    };
    let base = hash2(hash_bytes(&full), p.index() as u64);
    if is_default {
        obs.evals += 1;
        match lexpr::to_string(v) {
            Ok(s) if s.as_bytes() == &full[..] => {}
            other => {
                return Some((
                    "default-vs-custom".into(),
                    "to_string",
                    format!("to_string gives {:?} but to_string_custom(default) gives {:?}", other.map(|s| show(s.as_bytes())), show(&full)),
                ))
            }
        }
    }
    let entries: &[Entry] = if is_default {
        &[Entry::ToWriter, Entry::PrinterNew, Entry::ToWriterCustom, Entry::PrinterWithOptions]
    } else {
        &[Entry::ToWriterCustom, Entry::PrinterWithOptions]
    };
    for &e in entries {
        // --- short-write schedules
        for sched in [WriteSchedule::Max(1), WriteSchedule::Max(2), WriteSchedule::Max(3), WriteSchedule::Max(7), WriteSchedule::Random] {
            obs.evals += 1;
            obs.hashes.push(hash2(base, hash2(e as u64, match sched { WriteSchedule::Max(k) => k as u64, WriteSchedule::Random => 99 })));
            let (r, w) = emit(e, ShortWriter::new(sched, rng.fork()), v, p);
            obs.short_writes += w.short_calls as u64;
            if r.is_err() {
                return Some(("short-write-error".into(), e.name(), format!("sink accepting {:?} bytes per call: call failed: {:?}", sched, r)));
            }
            if w.out != full {
                return Some((
                    "short-write-lost-bytes".into(),
                    e.name(),
                    format!("sink accepting {:?} bytes per call received {:?} instead of {:?} and the call returned Ok", sched, show(&w.out), show(&full)),
                ));
            }
        }
        // --- interrupting sink
        {
            obs.evals += 1;
            let (r, w) = emit(e, InterruptingWriter::new(rng.fork()), v, p);
            obs.interrupts += w.interrupted as u64;
            if r.is_err() || w.out != full {
                return Some((
                    "interrupted-sink".into(),
                    e.name(),
                    format!("sink returning ErrorKind::Interrupted between partial writes: result {:?}, received {:?} instead of {:?}", r, show(&w.out), show(&full)),
                ));
            }
        }
        // --- hard error / zero acceptance at every offset
        let offsets: Vec<usize> = if every_offset {
            (0..=full.len()).collect()
        } else {
            let mut o = vec![0, full.len(), full.len().saturating_sub(1), full.len() / 2];
            for _ in 0..4 {
                o.push(rng.below(full.len() + 1));
            }
            o
        };
        for k in offsets {
            obs.evals += 2;
            obs.hashes.push(hash2(base, hash2(e as u64, 1000 + k as u64)));
            let (r, w) = emit(e, FaultWriter::new(k), v, p);
            obs.hard_faults += (w.errors_returned > 0) as u64;
            if k < full.len() {
                if r.is_ok() {
                    return Some((
                        "error-swallowed".into(),
                        e.name(),
                        format!("sink fails at byte {} of {:?}: call returned Ok after delivering {:?}", k, show(&full), show(&w.out)),
                    ));
                }
                if !full.starts_with(&w.out) {
                    return Some(("delivered-not-prefix".into(), e.name(), format!("sink fails at byte {}: delivered {:?} is not a prefix of {:?}", k, show(&w.out), show(&full))));
                }
            } else if r.is_err() || w.out != full {
                return Some(("spurious-error".into(), e.name(), format!("sink with room for the whole text: result {:?}, received {:?}", r, show(&w.out))));
            }
            let (r, w) = emit(e, ZeroWriter::new(k), v, p);
            obs.zero_faults += (w.zero_returns > 0) as u64;
            if k < full.len() {
                if r.is_ok() {
                    return Some((
                        "zero-accept-swallowed".into(),
                        e.name(),
                        format!("sink stops accepting bytes (Ok(0)) at byte {} of {:?}: call returned Ok after delivering {:?}", k, show(&full), show(&w.out)),
                    ));
                }
                if !full.starts_with(&w.out) {
                    return Some(("delivered-not-prefix".into(), e.name(), format!("zero-accepting sink at byte {}: delivered {:?} is not a prefix of {:?}", k, show(&w.out), show(&full))));
                }
            } else if r.is_err() || w.out != full {
                return Some(("spurious-error".into(), e.name(), format!("zero-writer with room for the whole text: result {:?}", r)));
            }
        }
    }
    // --- Display into a failing fmt sink (default options)
    if is_default {
        use std::fmt::Write as _;
        if let Ok(text) = std::str::from_utf8(&full) {
            let lims: Vec<usize> = if every_offset { (0..=full.len()).collect() } else { vec![0, full.len() / 2, full.len()] };
            for lim in lims {
                obs.evals += 1;
                let mut sink = FailingFmt { out: String::new(), limit: lim, failed: false };
                let r = write!(sink, "{}", v);
                if lim < full.len() {
                    obs.hard_faults += 1;
                    if r.is_ok() {
                        return Some(("display-error-swallowed".into(), "Display", format!("fmt sink failing after {} bytes: write! returned Ok", lim)));
                    }
                    if !text.starts_with(&sink.out) {
                        return Some(("delivered-not-prefix".into(), "Display", format!("fmt sink received {:?}, not a prefix of {:?}", sink.out, text)));
                    }
                } else if r.is_err() || sink.out != text {
                    return Some(("display-differs".into(), "Display", format!("Display gives {:?}, to_string {:?}", sink.out, text)));
                }
            }
        }
    }
    None
}

fn check(rep: &mut Report, v: &Value, p: &P, rng: &mut Rng, every_offset: bool) {
    let is_default = *p == P::default_();
    let mut obs = Obs { evals: 0, hard_faults: 0, zero_faults: 0, short_writes: 0, interrupts: 0, hashes: Vec::new() };
    let f = sink_failure(v, p, is_default, rng, every_offset, &mut obs);
    rep.evals(obs.evals);
    rep.count_n("faults:hard-error-injected", obs.hard_faults);
    rep.count_n("faults:zero-accept-injected", obs.zero_faults);
    rep.count_n("sink:short-writes-observed", obs.short_writes);
    rep.count_n("sink:interrupts-injected", obs.interrupts);
    for h in obs.hashes {
        rep.distinct(h);
    }
    rep.count(&format!("options:{}", if is_default { "default".to_string() } else { "custom".into() }));
    match f {
        None => {
            sample_if_room(rep, || json!({"text": lexpr::to_string_custom(v, p.to_lexpr()).unwrap_or_default(), "options": p.describe(), "every_offset": every_offset}));
        }
        Some((kind, _entry, _)) => {
            let kind0 = kind.clone();
            let small = shrink(v, &|x| {
                let mut o = Obs { evals: 0, hard_faults: 0, zero_faults: 0, short_writes: 0, interrupts: 0, hashes: Vec::new() };
                sink_failure(x, p, is_default, &mut Rng::new(1, "c07-shrink", 0, 0), every_offset, &mut o).map_or(false, |(k, _, _)| k == kind0)
            });
            let mut o = Obs { evals: 0, hard_faults: 0, zero_faults: 0, short_writes: 0, interrupts: 0, hashes: Vec::new() };
            let (kind, entry, detail) = sink_failure(&small, p, is_default, &mut Rng::new(1, "c07-shrink", 0, 0), every_offset, &mut o)
                .unwrap_or((kind, "?", "(not reproduced on shrunk value)".into()));
            rep.violation(
                "sink",
                format!("C07:{}:{}:{}", kind, entry, leaf_class(&small)),
                format!("{} with {} printing {}: {}", entry, p.describe(), dbg_value(&small), detail),
                json!({"value": dbg_value(&small), "options_index": p.index(), "entry": entry}),
            );
        }
    }
}

fn gen_c07_value(rng: &mut Rng, cfg: &GenCfg, tb: &Tables) -> Value {
    match rng.below(6) {
        0 => Value::Number(gen::int_to_number(gen::gen_int(rng, &tb.ints))),
        1 => Value::bytes(gen::gen_bytes(rng, 12)),
        2 => {
            // list of numbers and byte vectors
            let n = rng.range(1, 5);
            Value::list((0..n).map(|_| if rng.bool() { Value::Number(gen::int_to_number(gen::gen_int(rng, &tb.ints))) } else { Value::bytes(gen::gen_bytes(rng, 5)) }).collect::<Vec<_>>())
        }
        3 => gen::gen_atom(rng, cfg, tb),
        _ => gen::gen_value(rng, cfg, tb, 2),
    }
}

/// One `Printer` used again after a transient sink error: the second value must
/// arrive exactly as its text, directly after the prefix delivered before the error.
fn reuse_after_error(rep: &mut Report, v1: &Value, v2: &Value, p: &P, rng: &mut Rng) {
    let is_default = *p == P::default_();
    let (full1, full2) = match (lexpr::to_string_custom(v1, p.to_lexpr()), lexpr::to_string_custom(v2, p.to_lexpr())) {
        (Ok(a), Ok(b)) => (a.into_bytes(), b.into_bytes()),
        _ => return,
    };
    if full1.is_empty() {
        return;
    }
    let mut offsets: Vec<usize> = if full1.len() <= 40 { (0..full1.len()).collect() } else { (0..12).map(|_| rng.below(full1.len())).collect() };
    offsets.dedup();
    // one printer, several values, no failure: the sink holds the texts one after the other
    for max in [1usize, 5, usize::MAX] {
        rep.eval();
        let mut pr = Printer::with_options(FailOnceWriter::new(usize::MAX / 2, max), p.to_lexpr());
        // the printer is itself an io::Write that passes bytes through (separators between values)
        let r1 = pr.print(v1).is_ok();
        let sep_ok = std::io::Write::write_all(&mut pr, b"\n;; next\n").is_ok() && std::io::Write::flush(&mut pr).is_ok();
        let rs = [r1 && sep_ok, pr.print(v2).is_ok(), pr.print(v1).is_ok()];
        let w = pr.into_inner();
        let mut expected = full1.clone();
        expected.extend_from_slice(b"\n;; next\n");
        expected.extend_from_slice(&full2);
        expected.extend_from_slice(&full1);
        rep.count("reuse:printer-used-for-several-values");
        if rs != [true, true, true] || w.out != expected {
            rep.violation(
                "reuse",
                format!("C07:several-values-through-one-printer:{}", leaf_class(v1)),
                format!("Printer::with_options with {}: printing {}, {}, and the first again (sink takes <= {} bytes per call): results {:?}; sink holds {:?}, expected {:?}", p.describe(), dbg_value(v1), dbg_value(v2), max, rs, show(&w.out), show(&expected)),
                json!({"v1": dbg_value(v1), "v2": dbg_value(v2), "options_index": p.index()}),
            );
            return;
        }
    }
    for k in offsets {
        for max in [1usize, 3, usize::MAX] {
            for new_printer in [false, true] {
                if new_printer && !is_default {
                    continue;
                }
                rep.eval();
                rep.distinct(hash2(hash_bytes(&full1), hash2(hash_bytes(&full2), hash2(k as u64, hash2(max as u64, p.index() as u64 * 2 + new_printer as u64)))));
                let w = FailOnceWriter::new(k, max);
                let (r1, r2, w) = if new_printer {
                    let mut pr = Printer::new(w);
                    let r1 = pr.print(v1);
                    let r2 = pr.print(v2);
                    (r1, r2, pr.into_inner())
                } else {
                    let mut pr = Printer::with_options(w, p.to_lexpr());
                    let r1 = pr.print(v1);
                    let r2 = pr.print(v2);
                    (r1, r2, pr.into_inner())
                };
                let entry = if new_printer { "Printer::new.print" } else { "Printer::with_options.print" };
                let mut expected = full1[..k].to_vec();
                expected.extend_from_slice(&full2);
                let what = if r1.is_ok() {
                    Some("transient-error-swallowed")
                } else if r2.is_err() {
                    Some("second-print-fails-after-transient-error")
                } else if w.out != expected {
                    Some("second-print-not-its-text-after-transient-error")
                } else {
                    None
                };
                rep.count("reuse:printer-used-after-transient-error");
                if let Some(what) = what {
                    rep.violation(
                        "reuse",
                        format!("C07:{}:{}:{}", what, entry, leaf_class(v1)),
                        format!("{} with {}: first print of {} fails transiently at byte {} (sink takes <= {} bytes per call), then print of {}: results {:?} / {:?}; sink holds {:?}, expected {:?}", entry, p.describe(), dbg_value(v1), k, max, dbg_value(v2), r1.map_err(|e| e.kind()), r2.map_err(|e| e.kind()), show(&w.out), show(&expected)),
                        json!({"v1": dbg_value(v1), "v2": dbg_value(v2), "options_index": p.index(), "offset": k, "max": max}),
                    );
                    return;
                }
            }
        }
    }
}

#[cfg(feature = "full")]
fn serde_entry(rep: &mut Report, rng: &mut Rng) {
    // serde_lexpr::to_writer(_custom): same sink discipline through the Serde layer
    let data: Vec<(u64, String, i64)> = (0..rng.range(1, 4)).map(|_| (rng.next_u64() >> rng.below(64), gen::gen_string(rng, 6), -((rng.next_u64() >> rng.range(1, 63)) as i64))).collect();
    let full = match serde_lexpr::to_string(&data) {
        Ok(s) => s.into_bytes(),
        Err(e) => {
            rep.violation("serde", "C07:serde:to_string-failed".into(), e.to_string(), json!({}));
            return;
        }
    };
    for k in [1usize, 2, 3] {
        rep.eval();
        let mut w = ShortWriter::new(WriteSchedule::Max(k), rng.fork());
        let r = serde_lexpr::to_writer(&mut w, &data);
        rep.count_n("sink:short-writes-observed", w.short_calls as u64);
        if r.is_err() || w.out != full {
            rep.violation("serde", "C07:short-write-lost-bytes:serde_lexpr::to_writer".into(), format!("serde_lexpr::to_writer into a sink accepting {} byte(s) per call delivered {:?} instead of {:?} (result {:?})", k, show(&w.out), show(&full), r.map_err(|e| e.to_string())), json!({}));
            return;
        }
        let mut w = ShortWriter::new(WriteSchedule::Max(k), rng.fork());
        let r = serde_lexpr::to_writer_custom(&mut w, &data, lexpr::print::Options::default());
        if r.is_err() || w.out != full {
            rep.violation("serde", "C07:short-write-lost-bytes:serde_lexpr::to_writer_custom".into(), format!("serde_lexpr::to_writer_custom into a sink accepting {} byte(s) per call delivered {:?} instead of {:?}", k, show(&w.out), show(&full)), json!({}));
            return;
        }
    }
    for k in 0..full.len() {
        rep.eval();
        let mut w = FaultWriter::new(k);
        let r = serde_lexpr::to_writer(&mut w, &data);
        rep.count("faults:hard-error-injected");
        if r.is_ok() || !full.starts_with(&w.out) {
            rep.violation("serde", "C07:error-swallowed:serde_lexpr::to_writer".into(), format!("sink failing at byte {}: serde_lexpr::to_writer returned {:?} after delivering {:?}", k, r.map_err(|e| e.to_string()), show(&w.out)), json!({}));
            return;
        }
        // the sink's error comes back as an Io-category error carrying it
        if let Err(e) = r {
            use std::error::Error as _;
            rep.eval();
            let cat = e.classify();
            let carried = e.source().map_or(false, |s| s.to_string().contains(crate::mon::io::MARKER)) || e.to_string().contains(crate::mon::io::MARKER);
            let dbg = format!("{:?}", e);
            let ioe = std::io::Error::from(e);
            if cat != serde_lexpr::error::Category::Io || !carried || ioe.kind() != std::io::ErrorKind::BrokenPipe || !ioe.to_string().contains(crate::mon::io::MARKER) || dbg.is_empty() {
                rep.violation("serde", "C07:sink-error-not-surfaced-as-io:serde_lexpr::to_writer".into(), format!("sink failing at byte {}: error category {:?}, carries the sink's error: {}, converts to {:?}", k, cat, carried, ioe), json!({}));
                return;
            }
            rep.count("serde:sink-error-surfaced-as-io");
        }
    }
    rep.distinct(hash_bytes(&full));
}

#[cfg(not(feature = "full"))]
fn serde_entry(_rep: &mut Report, _rng: &mut Rng) {}

pub fn sets(ctx: &Ctx) -> Vec<CaseSet> {
    let tb = Arc::new(Tables::new());
    let mut cfg = GenCfg::default_dialect();
    cfg.max_depth = 3;
    cfg.max_items = 4;
    cfg.max_str = 8;
    cfg.name_ok = gen::any_name;
    let cfg = Arc::new(cfg);
    let thorough = ctx.thorough;
    let mut out = Vec::new();

    let (tb1, cfg1) = (tb.clone(), cfg.clone());
    out.push(CaseSet::new(
        "default-options-every-offset",
        ctx.size(30_000, 1_500_000),
        Box::new(move |rep, rng, _| {
            let v = gen_c07_value(rng, &cfg1, &tb1);
            check(rep, &v, &P::default_(), rng, true);
        }),
    ));

    let (tb2, cfg2) = (tb.clone(), cfg.clone());
    // quick: 48 option sets sampled by stride; thorough: all 576
    let n_opts: u64 = if thorough { N_P as u64 } else { 48 };
    let per_opt = ctx.size(48, 400);
    out.push(CaseSet::new(
        "option-sets-every-offset",
        n_opts * per_opt,
        Box::new(move |rep, rng, case| {
            let oi = (case / per_opt) as usize;
            let pi = if thorough { oi } else { (oi * 12 + 5) % N_P };
            let p = P::from_index(pi);
            let v = gen_c07_value(rng, &cfg2, &tb2);
            rep.count("option-set-runs");
            rep.distinct(hash2(0xC07, pi as u64));
            check(rep, &v, &p, rng, true);
        }),
    ));

    let (tb3, cfg3) = (tb.clone(), cfg.clone());
    out.push(CaseSet::new(
        "larger-values-sampled-offsets",
        ctx.size(8_000, 500_000),
        Box::new(move |rep, rng, _| {
            let mut c = (*cfg3).clone();
            c.max_depth = 5;
            c.max_items = 8;
            let v = gen::gen_value(rng, &c, &tb3, 0);
            let p = if rng.bool() { P::default_() } else { P::from_index(rng.below(N_P)) };
            check(rep, &v, &p, rng, false);
        }),
    ));

    let (tb4, cfg4) = (tb.clone(), cfg.clone());
    out.push(CaseSet::new(
        "printer-reused-after-transient-error",
        ctx.size(8_000, 500_000),
        Box::new(move |rep, rng, _| {
            let v1 = gen_c07_value(rng, &cfg4, &tb4);
            let v2 = gen_c07_value(rng, &cfg4, &tb4);
            let p = match rng.below(3) {
                0 => P::default_(),
                1 => P::elisp(),
                _ => P::from_index(rng.below(N_P)),
            };
            reuse_after_error(rep, &v1, &v2, &p, rng);
        }),
    ));

    // sizes at and around powers of two (buffer capacities, chunk sizes)
    out.push(CaseSet::new(
        "sizes-around-powers-of-two",
        ctx.size(60, 240),
        Box::new(move |rep, rng, case| {
            let p = if case % 4 == 0 { P::default_() } else { P::from_index(rng.below(N_P)) };
            let mut sizes: Vec<usize> = Vec::new();
            for k in [8u32, 10, 11, 12, 13] {
                for d in [-1i64, 0, 1] {
                    sizes.push(((1i64 << k) + d) as usize);
                }
            }
            if thorough {
                sizes.extend([1500, 16383, 16384, 16385, 65536]);
            }
            let n = sizes[(case as usize / 4) % sizes.len()];
            rep.max("max_sized_value", n as u64);
            let vs = [
                Value::bytes((0..n).map(|i| (i * 7 + n) as u8).collect::<Vec<u8>>()),
                Value::string((0..n).map(|i| if i % 97 == 0 { 'é' } else if i % 31 == 0 { '"' } else { (b'a' + (i % 26) as u8) as char }).collect::<String>()),
                Value::list((0..n).map(|i| Value::from((i % 1000) as u32)).collect::<Vec<_>>()),
                Value::vector((0..n).map(|i| Value::from((i % 7) as u32)).collect::<Vec<_>>()),
                Value::symbol("s".repeat(n)),
            ];
            for v in vs.iter() {
                check(rep, v, &p, rng, false);
            }
        }),
    ));

    out.push(CaseSet::new("serde-entry-points", ctx.size(6_000, 400_000), Box::new(move |rep, rng, _| serde_entry(rep, rng))));
    out
}
