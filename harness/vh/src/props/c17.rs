//! C17 -- only well-formed UTF-8 ever reaches a str.
//!
//! Monitors: the check_utf8 hook immediately before each unchecked conversion
//! (panics with lexpr_verif:utf8:<site>), re-validation of every str reachable
//! from every parse result and of every printed String, and the rule that raw
//! ill-formed bytes inside a string/symbol/character must be rejected.

use crate::gen::{self, GenCfg, Tables};
use crate::mon::io::{ChunkReader, Chunking};
use crate::mon::panics;
use crate::opts::{P, Q, N_P, N_Q};
use crate::props::common::*;
use crate::props::PropDef;
use crate::report::{hex, show, Report};
use crate::rng::{hash2, hash_bytes, Rng};
use crate::run::{CaseSet, Ctx};
use lexpr::{Parser, Value};
use serde_json::json;
use std::sync::Arc;

pub fn def() -> PropDef {
    PropDef {
        id: "C17",
        level: "exploration",
        rule: "cases = (byte sequence class, syntactic context, parser options, source, API): every 1-4 byte sequence class (valid, overlong, surrogate, > U+10FFFF, truncated, stray continuation, invalid lead; ALL 65536 two-byte sequences exhaustively; 3-4 byte sequences by class x boundary bytes) placed at symbol start/middle/end, keyword, R6RS and Emacs strings (plain and after each escape form), #\\ and ? characters, comments; valid text with escapes adjacent to multi-byte characters at every alignment (borrowed and scratch paths); Emacs hex/octal escapes mixed with multi-byte text; output side: values from G x printer option sets. non-trivial = a parse or print whose every reachable str was re-validated while the creation-site hook was armed; distinct = hash of (input, options, source)",
        assumptions: &["std::str::from_utf8 is the definition of well-formed UTF-8", "the hook sits immediately before each of the five from_utf8_unchecked call sites (MANIFEST.hooks)"],
        nofast_too: true,
        min_quick: 500_000,
        min_thorough: 20_000_000,
        sets,
        post: Some(post),
    }
}

fn post(ctx: &Ctx, rep: &mut Report) {
    if !crate::hooks::ENABLED {
        rep.inconclusive("built without --cfg lexpr_verif: the creation-site hook is absent".into());
    }
    let pre = if ctx.nofast { "" } else { "" };
    let _ = pre;
    for k in ["strs-revalidated", "illformed-in-token:rejected", "hook:utf8-checks-executed", "printed-strings-revalidated"] {
        if rep.counters.get(k).copied().unwrap_or(0) == 0 {
            rep.inconclusive(format!("monitor observed no events of kind {}", k));
        }
    }
}

/// Walk a value; returns the first str that is not well-formed UTF-8.
fn bad_str(v: &Value, n_checked: &mut u64) -> Option<Vec<u8>> {
    let mut check = |s: &str| -> Option<Vec<u8>> {
        *n_checked += 1;
        if std::str::from_utf8(s.as_bytes()).is_err() {
            Some(s.as_bytes().to_vec())
        } else {
            None
        }
    };
    match v {
        Value::String(s) | Value::Symbol(s) | Value::Keyword(s) => check(s),
        Value::Cons(c) => {
            for cell in c.iter() {
                if let Some(b) = bad_str(cell.car(), n_checked) {
                    return Some(b);
                }
                if !matches!(cell.cdr(), Value::Cons(_)) {
                    if let Some(b) = bad_str(cell.cdr(), n_checked) {
                        return Some(b);
                    }
                }
            }
            None
        }
        Value::Vector(xs) => xs.iter().find_map(|x| bad_str(x, n_checked)),
        _ => None,
    }
}

#[derive(Clone, Copy, PartialEq, Debug)]
pub enum Ctxt {
    Free,        // no demand: just observe
    InToken,     // raw bytes placed inside a string / symbol / keyword / character
    InComment,
}

/// Parse `input` through every source and API; enforce the C17 rules.
pub fn observe(rep: &mut Report, input: &[u8], q: &Q, placed_invalid: bool, ctxt: Ctxt, what: &str) {
    let o = q.to_lexpr();
    let base = hash2(hash_bytes(input), q.index() as u64);
    let as_str = std::str::from_utf8(input).ok();
    let before = crate::hooks::utf8_checks();
    let mut results: Vec<(&'static str, Result<Result<Vec<Value>, String>, panics::PanicInfo>)> = Vec::new();
    let collect = |mut next: Box<dyn FnMut() -> Result<Option<Value>, lexpr::parse::Error> + '_>| -> Result<Vec<Value>, String> {
        let mut out = Vec::new();
        for _ in 0..64 {
            match next() {
                Ok(Some(v)) => out.push(v),
                Ok(None) => return Ok(out),
                Err(e) => {
                    if out.is_empty() {
                        return Err(e.to_string());
                    }
                    return Ok(out);
                }
            }
        }
        Ok(out)
    };
    // the same parser asked again after each error (not the fused iterators): whatever
    // position an error left the source at, the next datum must still be well-formed
    let resume = |mut next: Box<dyn FnMut() -> Result<Option<Value>, lexpr::parse::Error> + '_>| -> Result<Vec<Value>, String> {
        let mut out = Vec::new();
        for _ in 0..16 {
            match next() {
                Ok(Some(v)) => out.push(v),
                Ok(None) => break,
                Err(_) => {}
            }
        }
        Ok(out)
    };
    results.push(("slice:resume", panics::guarded(|| {
        let mut p = Parser::from_slice_custom(input, o);
        resume(Box::new(move || p.next_value()))
    })));
    results.push(("reader:resume", panics::guarded(|| {
        let mut p = Parser::from_reader_custom(input, o);
        resume(Box::new(move || p.next_datum().map(|d| d.map(|d| d.value().clone()))))
    })));
    if let Some(s) = as_str {
        results.push(("str:resume", panics::guarded(|| {
            let mut p = Parser::from_str_custom(s, o);
            resume(Box::new(move || p.next_value()))
        })));
        results.push(("str:resume-datum", panics::guarded(|| {
            let mut p = Parser::from_str_custom(s, o);
            resume(Box::new(move || p.next_datum().map(|d| d.map(|d| d.value().clone()))))
        })));
    }
    results.push(("slice:value", panics::guarded(|| lexpr::from_slice_custom(input, o).map(|v| vec![v]).map_err(|e| e.to_string()))));
    results.push(("slice:datum", panics::guarded(|| lexpr::datum::from_slice_custom(input, o).map(|d| vec![d.value().clone()]).map_err(|e| e.to_string()))));
    results.push(("slice:iter", panics::guarded(|| {
        let mut p = Parser::from_slice_custom(input, o);
        collect(Box::new(move || p.next_value()))
    })));
    results.push(("reader:value", panics::guarded(|| lexpr::from_reader_custom(input, o).map(|v| vec![v]).map_err(|e| e.to_string()))));
    results.push(("reader:datum-iter", panics::guarded(|| {
        let mut p = Parser::from_reader_custom(ChunkReader::new(input, Chunking::Random, false, Rng::new(5, "c17", 0, 0)), o);
        collect(Box::new(move || p.next_datum().map(|d| d.map(|d| d.value().clone()))))
    })));
    if let Some(s) = as_str {
        results.push(("str:value", panics::guarded(|| lexpr::from_str_custom(s, o).map(|v| vec![v]).map_err(|e| e.to_string()))));
        results.push(("str:datum", panics::guarded(|| lexpr::datum::from_str_custom(s, o).map(|d| vec![d.value().clone()]).map_err(|e| e.to_string()))));
        results.push(("str:iter", panics::guarded(|| {
            let mut p = Parser::from_str_custom(s, o);
            collect(Box::new(move || p.next_value()))
        })));
    }
    rep.count_n("hook:utf8-checks-executed", crate::hooks::utf8_checks() - before);
    for (i, (name, r)) in results.into_iter().enumerate() {
        rep.eval();
        rep.distinct(hash2(base, i as u64));
        let replay = json!({"input_hex": hex(input), "options_index": q.index(), "entry": name, "what": what});
        match r {
            Err(p) => {
                if p.message.starts_with("lexpr_verif:utf8:") {
                    rep.violation("hook", format!("C17:hook-fired:{}", p.message.trim_start_matches("lexpr_verif:utf8:")), format!("{} on {:?} with {}: ill-formed bytes reached an unchecked str conversion at {}", name, show(input), q.describe(), p.message), replay);
                } else if p.in_library() {
                    rep.violation("panic", format!("C17:panic:{}", p.sig()), format!("{} on {:?}: {}", name, show(input), p.short()), replay);
                } else {
                    rep.inconclusive(format!("harness panic: {}", p.short()));
                }
                return;
            }
            Ok(Ok(values)) => {
                let mut n = 0u64;
                for v in values.iter() {
                    if let Some(bad) = bad_str(v, &mut n) {
                        rep.violation("revalidate", format!("C17:illformed-str-returned:{}", name.split(':').next().unwrap_or("")), format!("{} on {:?} with {} returned a str holding ill-formed UTF-8 {:?}", name, show(input), q.describe(), show(&bad)), replay);
                        return;
                    }
                }
                rep.count_n("strs-revalidated", n);
                if placed_invalid && ctxt == Ctxt::InToken && name.ends_with(":value") || (placed_invalid && ctxt == Ctxt::InToken && name.ends_with(":datum")) {
                    rep.violation(
                        "accepted",
                        format!("C17:illformed-in-token-accepted:{}", what),
                        format!("{} on {:?} with {}: ill-formed UTF-8 inside a {} was accepted: {}", name, show(input), q.describe(), what, values.iter().map(dbg_value).collect::<Vec<_>>().join(" ")),
                        replay,
                    );
                    return;
                }
                if placed_invalid && ctxt == Ctxt::InComment {
                    rep.count("illformed-in-comment:ignored");
                }
            }
            Ok(Err(_)) => {
                if placed_invalid && ctxt == Ctxt::InToken {
                    rep.count("illformed-in-token:rejected");
                }
            }
        }
    }
}

/// Byte sequences by class.
fn seq_classes() -> Vec<(&'static str, Vec<u8>)> {
    let mut v: Vec<(&'static str, Vec<u8>)> = vec![
        ("valid-2", "λ".as_bytes().to_vec()),
        ("valid-2-min", vec![0xC2, 0x80]),
        ("valid-2-max", vec![0xDF, 0xBF]),
        ("valid-3", "中".as_bytes().to_vec()),
        ("valid-3-min", vec![0xE0, 0xA0, 0x80]),
        ("valid-3-d7ff", vec![0xED, 0x9F, 0xBF]),
        ("valid-3-e000", vec![0xEE, 0x80, 0x80]),
        ("valid-3-ffff", vec![0xEF, 0xBF, 0xBF]),
        ("valid-4", "𝒳".as_bytes().to_vec()),
        ("valid-4-min", vec![0xF0, 0x90, 0x80, 0x80]),
        ("valid-4-max", vec![0xF4, 0x8F, 0xBF, 0xBF]),
        ("overlong-2", vec![0xC0, 0x80]),
        ("overlong-2b", vec![0xC1, 0xBF]),
        ("overlong-3", vec![0xE0, 0x80, 0x80]),
        ("overlong-3b", vec![0xE0, 0x9F, 0xBF]),
        ("overlong-4", vec![0xF0, 0x80, 0x80, 0x80]),
        ("overlong-4b", vec![0xF0, 0x8F, 0xBF, 0xBF]),
        ("surrogate-lo", vec![0xED, 0xA0, 0x80]),
        ("surrogate-hi", vec![0xED, 0xBF, 0xBF]),
        ("above-10ffff", vec![0xF4, 0x90, 0x80, 0x80]),
        ("lead-f5", vec![0xF5, 0x80, 0x80, 0x80]),
        ("lead-f8", vec![0xF8, 0x88, 0x80, 0x80, 0x80]),
        ("lead-ff", vec![0xFF]),
        ("lead-fe", vec![0xFE]),
        ("truncated-2", vec![0xCE]),
        ("truncated-3a", vec![0xE4]),
        ("truncated-3b", vec![0xE4, 0xB8]),
        ("truncated-4a", vec![0xF0]),
        ("truncated-4b", vec![0xF0, 0x9F]),
        ("truncated-4c", vec![0xF0, 0x9F, 0x98]),
        ("stray-continuation", vec![0x80]),
        ("stray-continuation-bf", vec![0xBF]),
        ("bad-continuation-2", vec![0xCE, 0x41]),
        ("bad-continuation-3", vec![0xE4, 0xB8, 0x41]),
        ("bad-continuation-3b", vec![0xE4, 0x41, 0xAD]),
        ("bad-continuation-4", vec![0xF0, 0x9F, 0x98, 0x41]),
        ("bad-continuation-4b", vec![0xF0, 0x9F, 0x22, 0x80]),
    ];
    // 3-4 byte sequences: class boundaries x boundary continuation bytes
    for lead in [0xE0u8, 0xE1, 0xEC, 0xED, 0xEE, 0xEF] {
        for b1 in [0x7Fu8, 0x80, 0x9F, 0xA0, 0xBF, 0xC0] {
            for b2 in [0x7Fu8, 0x80, 0xBF, 0xC0] {
                v.push(("grid-3", vec![lead, b1, b2]));
            }
        }
    }
    for lead in [0xF0u8, 0xF1, 0xF3, 0xF4, 0xF5, 0xF7] {
        for b1 in [0x7Fu8, 0x80, 0x8F, 0x90, 0xBF, 0xC0] {
            for b2 in [0x80u8, 0xBF, 0xC0] {
                for b3 in [0x7Fu8, 0x80, 0xBF] {
                    v.push(("grid-4", vec![lead, b1, b2, b3]));
                }
            }
        }
    }
    v
}

/// (name, prefix, suffix, kind of context, dialect restriction: 0 any / 1 needs R6RS string / 2 needs Elisp string / 3 needs R6RS char / 4 needs Elisp char)
const CONTEXTS: &[(&str, &[u8], &[u8], Ctxt, u8)] = &[
    ("symbol-start", b"", b"abc", Ctxt::InToken, 0),
    ("symbol-middle", b"ab", b"cd", Ctxt::InToken, 0),
    ("symbol-end", b"abc", b"", Ctxt::InToken, 0),
    ("symbol-end-in-list", b"(abc", b")", Ctxt::InToken, 0),
    ("symbol-after-multibyte", "λ".as_bytes(), b"x", Ctxt::InToken, 0),
    ("keyword", b"#:k", b"w", Ctxt::InToken, 0),
    ("string", b"\"ab", b"cd\"", Ctxt::InToken, 0),
    ("string-start", b"\"", b"\"", Ctxt::InToken, 0),
    ("string-after-escape-n", b"\"\\n", b"\"", Ctxt::InToken, 0),
    ("string-before-escape", b"\"", b"\\n\"", Ctxt::InToken, 0),
    ("string-after-hex-escape", b"\"\\x3bb;", b"\"", Ctxt::InToken, 1),
    ("string-between-escapes", b"\"\\\\", b"\\\"\"", Ctxt::InToken, 0),
    ("string-after-multibyte", "\"λ".as_bytes(), b"\"", Ctxt::InToken, 0),
    // ill-formed bytes early in a string that continues with several escapes and plain text
    ("string-before-two-escapes", b"\"", b"\\n\\n\"", Ctxt::InToken, 0),
    ("string-before-escapes-and-text", b"\"caf", b" \\t au lait\\n please\"", Ctxt::InToken, 0),
    ("string-between-escape-pairs", b"\"\\n\\n", b"\\t\\t x\\\\y\"", Ctxt::InToken, 0),
    ("string-before-three-hex-escapes", b"\"", b"\\x41;\\x42;\\x43;z\"", Ctxt::InToken, 1),
    ("elisp-string-before-escapes", b"\"", b"\\101\\n\\tz\"", Ctxt::InToken, 2),
    ("elisp-string-after-u-escape", b"\"\\u00e9", b"\"", Ctxt::InToken, 2),
    ("elisp-string-after-x-escape", b"\"\\x41", b"\"", Ctxt::InToken, 2),
    ("elisp-string-after-octal", b"\"\\101", b"\"", Ctxt::InToken, 2),
    ("elisp-string-after-N", b"\"\\N{U+3bb}", b"\"", Ctxt::InToken, 2),
    ("elisp-string-escaped-raw", b"\"\\", b"\"", Ctxt::InToken, 2),
    ("r6rs-char", b"#\\", b"", Ctxt::InToken, 3),
    ("r6rs-char-in-list", b"(#\\", b" a)", Ctxt::InToken, 3),
    ("elisp-char", b"?", b"", Ctxt::InToken, 4),
    ("elisp-char-escaped", b"?\\", b" ", Ctxt::InToken, 4),
    ("comment", b"; ", b"\nabc", Ctxt::InComment, 0),
    ("comment-at-end", b"abc ; ", b"", Ctxt::InComment, 0),
    ("vector-element", b"#(a ", b"b)", Ctxt::InToken, 0),
];

fn q_for(dialect: u8, rng: &mut Rng) -> Q {
    let mut q = match rng.below(4) {
        0 => Q::default_(),
        1 => Q::elisp(),
        2 => Q::all_on(),
        _ => Q::from_index(rng.below(N_Q)),
    };
    use crate::opts::Syn;
    match dialect {
        1 => q.string = Syn::R6RS,
        2 => q.string = Syn::Elisp,
        3 => q.chr = Syn::R6RS,
        4 => q.chr = Syn::Elisp,
        _ => {}
    }
    q
}

fn place(rep: &mut Report, seq: &[u8], class: &str, rng: &mut Rng) {
    let invalid = std::str::from_utf8(seq).is_err();
    for (cname, pre, suf, ctxt, dialect) in CONTEXTS {
        let mut input = pre.to_vec();
        input.extend_from_slice(seq);
        input.extend_from_slice(suf);
        // only demand rejection when the whole token region is ill-formed:
        // an invalid sequence may be completed by the suffix into a valid one
        let still_invalid = invalid && std::str::from_utf8(&input).is_err();
        let q = q_for(*dialect, rng);
        rep.count(&format!("placed:{}:{}", if still_invalid { "illformed" } else { "wellformed" }, cname));
        observe(rep, &input, &q, still_invalid, *ctxt, cname);
        let _ = class;
    }
}

fn alignment_case(rep: &mut Report, rng: &mut Rng) {
    // valid text with escapes adjacent to multi-byte characters at every
    // alignment: forces both the borrowed fast path and the scratch path
    let elisp = rng.bool();
    let pieces_r6: &[&str] = &["λ", "中", "𝒳", "é", "a", "\\n", "\\x3bb;", "\\x41;", "\\xe9;", "\\x80;", "\\xff;", "\\xA0;", "\\x7f;", "\\x100;", "\\x7ff;", "\\x800;", "\\xffff;", "\\x10000;", "\\\\", "\\\"", "\\t", "\\x10FFFF;", "\\xD7FF;", " ", "\\a"];
    let pieces_el: &[&str] = &["λ", "中", "𝒳", "é", "a", "\\n", "\\u00e9", "\\U0001F600", "\\N{U+3bb}", "\\\\", "\\\"", "\\ ", "\\x41", "\\101", "\\xff", "\\377", "\\x3bb", "\\e", "\\^a", "\\d"];
    let n = rng.range(1, 8);
    let mut s = String::from("\"");
    for _ in 0..n {
        if rng.chance(1, 3) {
            // an escape with a random value: boundaries of the encoding lengths,
            // surrogates and out-of-range values included (those must be errors)
            let v: u32 = match rng.below(6) {
                0 => *rng.pick(&[0u32, 0x7F, 0x80, 0xFF, 0x100, 0x7FF, 0x800, 0xD7FF, 0xD800, 0xDFFF, 0xE000, 0xFFFF, 0x10000, 0x10FFFF, 0x110000, 0xFFFFFF, 0x1000000]),
                1 => rng.below(0x100) as u32,
                2 => rng.below(0x800) as u32,
                3 => rng.below(0x10000) as u32,
                _ => rng.below(0x110000) as u32,
            };
            if elisp {
                match rng.below(5) {
                    0 => s.push_str(&format!("\\x{:x}", v)),
                    1 => s.push_str(&format!("\\{:o}", v)),
                    2 => s.push_str(&format!("\\u{:04x}", v & 0xFFFF)),
                    3 => s.push_str(&format!("\\U{:08x}", v)),
                    _ => s.push_str(&format!("\\N{{U+{:X}}}", v)),
                }
                if rng.bool() {
                    s.push_str("\\ "); // escaped blank terminates a hex/octal escape
                }
            } else {
                s.push_str(&format!("\\x{:x};", v));
            }
            continue;
        }
        s.push_str(if elisp { *rng.pick::<&str>(pieces_el) } else { *rng.pick::<&str>(pieces_r6) });
    }
    s.push('"');
    // optionally surround by symbols with multibyte chars (symbol scanner paths)
    let text = match rng.below(4) {
        0 => s,
        1 => format!("(λx {} 中y)", s),
        2 => format!("#(x𝒳 {})", s),
        _ => format!("é{} {}", if elisp { "" } else { "" }, s),
    };
    let mut q = if elisp { Q::elisp() } else { Q::default_() };
    if rng.chance(1, 3) {
        let r = Q::from_index(rng.below(N_Q));
        q.kw = r.kw;
        q.nil = r.nil;
        q.digit = r.digit;
    }
    rep.count(if elisp { "alignment:elisp" } else { "alignment:r6rs" });
    observe(rep, text.as_bytes(), &q, false, Ctxt::Free, "alignment");
    sample_if_room(rep, || json!({"kind": "escape/multibyte alignment", "text": text, "options": q.describe()}));
}

fn print_side(rep: &mut Report, rng: &mut Rng, cfg: &GenCfg, tb: &Tables, pi: usize) {
    let v = gen::gen_value(rng, cfg, tb, 1);
    let p = P::from_index(pi);
    rep.eval();
    let before = crate::hooks::utf8_checks();
    let r = panics::guarded(|| {
        let s = lexpr::to_string_custom(&v, p.to_lexpr());
        let b = lexpr::to_vec_custom(&v, p.to_lexpr());
        (s, b)
    });
    rep.count_n("hook:utf8-checks-executed", crate::hooks::utf8_checks() - before);
    match r {
        Err(pn) => {
            if pn.in_library() {
                rep.violation("print", format!("C17:print-panic:{}", pn.sig()), format!("printing {} with {} panicked: {}", dbg_value(&v), p.describe(), pn.short()), json!({"options_index": pi}));
            } else {
                rep.inconclusive(format!("harness panic: {}", pn.short()));
            }
        }
        Ok((Ok(s), Ok(b))) => {
            rep.count("printed-strings-revalidated");
            rep.distinct(hash2(hash_bytes(&b), pi as u64));
            if std::str::from_utf8(s.as_bytes()).is_err() {
                rep.violation("print", "C17:printed-string-illformed".into(), format!("to_string_custom({}, {}) is not well-formed UTF-8: {:?}", dbg_value(&v), p.describe(), show(s.as_bytes())), json!({"options_index": pi}));
            } else if s.as_bytes() != &b[..] {
                rep.violation("print", "C17:string-differs-from-sink-bytes".into(), format!("to_string_custom gives {:?} but to_vec_custom gives {:?}", show(s.as_bytes()), show(&b)), json!({"options_index": pi}));
            }
            // ... and identical to what a sink that takes a few bytes per call receives
            {
                rep.eval();
                let mut w = crate::mon::io::ShortWriter::new(crate::mon::io::WriteSchedule::Random, rng.fork());
                let r = lexpr::to_writer_custom(&mut w, &v, p.to_lexpr());
                if r.is_err() || w.out != b {
                    rep.violation("print", "C17:string-differs-from-short-sink-bytes".into(), format!("{} with {}: to_string_custom gives {:?} but a sink accepting 1-7 bytes per call received {:?} (result {:?})", dbg_value(&v), p.describe(), show(&b), show(&w.out), r), json!({"options_index": pi}));
                    return;
                }
            }
            if pi == P::default_().index() {
                if let (Ok(s2), Ok(b2)) = (lexpr::to_string(&v), lexpr::to_vec(&v)) {
                    rep.eval();
                    if std::str::from_utf8(s2.as_bytes()).is_err() || s2.as_bytes() != &b2[..] {
                        rep.violation("print", "C17:to_string-illformed-or-differs".into(), format!("to_string({}) = {:?} vs to_vec {:?}", dbg_value(&v), show(s2.as_bytes()), show(&b2)), json!({}));
                    }
                }
            }
        }
        Ok(other) => rep.violation("print", "C17:print-to-memory-failed".into(), format!("printing to memory failed: {:?}", (other.0.map(|_| ()), other.1.map(|_| ()))), json!({"options_index": pi})),
    }
}

pub fn sets(ctx: &Ctx) -> Vec<CaseSet> {
    let mut out = Vec::new();
    let classes = Arc::new(seq_classes());
    let ncl = classes.len() as u64;
    let reps = ctx.size(2, 30);
    let cl = classes.clone();
    out.push(CaseSet::new(
        "sequence-classes-in-contexts",
        ncl * reps,
        Box::new(move |rep, rng, case| {
            let (name, seq) = &cl[(case % ncl) as usize];
            rep.count(&format!("class:{}", name));
            place(rep, seq, name, rng);
        }),
    ));

    // all 65536 two-byte sequences, each in a rotating subset of contexts
    out.push(CaseSet::new(
        "all-two-byte-sequences",
        256,
        Box::new(move |rep, rng, case| {
            for b in 0..=255u8 {
                let seq = [case as u8, b];
                let invalid = std::str::from_utf8(&seq).is_err();
                // three contexts per sequence, rotating
                for j in 0..3 {
                    let (cname, pre, suf, ctxt, dialect) = CONTEXTS[(case as usize * 7 + b as usize * 3 + j * 5) % CONTEXTS.len()];
                    let mut input = pre.to_vec();
                    input.extend_from_slice(&seq);
                    input.extend_from_slice(suf);
                    // ASCII bytes may terminate the token: only demand rejection
                    // when both bytes are non-ASCII (they stay inside the token)
                    let demand = invalid && seq[0] >= 0x80 && seq[1] >= 0x80 && std::str::from_utf8(&input).is_err();
                    let q = q_for(dialect, rng);
                    observe(rep, &input, &q, demand, ctxt, cname);
                }
            }
            rep.count_n("two-byte-sequences-enumerated", 256);
        }),
    ));

    // a multi-byte character directly after a prefix that makes the parser fail
    // part-way through a token, then more text: the resumed parser starts wherever
    // the error left the source
    out.push(CaseSet::new(
        "multibyte-after-error-prefix",
        ctx.size(20_000, 1_500_000),
        Box::new(move |rep, rng, _| {
            const PREFIXES: &[&str] = &["#x", "#b", "#o", "#d", "#", "#e", "1e", "1e+", "1.", "-", "+.", "\"\\", "\"\\x", "\"\\x4", "#\\x", "#\\x4", "#\\", "#\\sp", "?\\^", "?\\C-", "?\\", "?", "\"\\u", "\"\\N{", "#u8(", "#u8(1", "(a .", "#:", ":", "#%", "1", "12", "'", ",@", "#t", "#f", "#n", "#ni", "|", "a|"];
            let mb = ["é", "λ", "中", "𝒳", "ｱ", "ß", "\u{a0}", "\u{2028}", "\u{feff}", "Ⅷ"];
            let mut t = String::new();
            for _ in 0..rng.range(1, 3) {
                t.push_str(*rng.pick::<&str>(PREFIXES));
                for _ in 0..rng.range(1, 3) {
                    t.push_str(*rng.pick::<&str>(&mb));
                }
                match rng.below(4) {
                    0 => t.push_str("t "),
                    1 => t.push_str("\" "),
                    2 => t.push(' '),
                    _ => {}
                }
            }
            let q = q_for(rng.below(3) as u8, rng);
            observe(rep, t.as_bytes(), &q, false, Ctxt::Free, "multibyte-after-error-prefix");
        }),
    ));
    // long tokens: a multi-byte character (or an ill-formed sequence) straddling the
    // offsets at which buffers of 128 / 256 / 4096 / 8192 bytes fill up, with an escape
    // before it so that the copying path (scratch buffer) is taken
    out.push(CaseSet::new(
        "long-tokens-across-buffer-boundaries",
        ctx.size(3_000, 200_000),
        Box::new(move |rep, rng, _| {
            let boundary = *rng.pick(&[128usize, 256, 512, 1024, 4096, 8192]);
            let at = boundary - rng.below(5); // the sequence starts 0..4 bytes before the boundary
            let classes = seq_classes();
            let (class, seq) = &classes[rng.below(classes.len())];
            let invalid = std::str::from_utf8(seq).is_err();
            let (kind, dialect) = *rng.pick(&[("string", 1u8), ("string", 2), ("symbol", 0), ("keyword", 0), ("string-no-escape", 0)]);
            let mut input: Vec<u8> = Vec::new();
            match kind {
                "string" => {
                    input.push(b'"');
                    input.extend_from_slice(if dialect == 1 { b"\\x41;" } else { b"\\101" });
                }
                "string-no-escape" => input.push(b'"'),
                "keyword" => input.extend_from_slice(b"#:k"),
                _ => input.push(b's'),
            }
            let fill = *rng.pick(&[b'a', b'z', b'-']);
            while input.len() < at {
                input.push(fill);
            }
            input.extend_from_slice(seq);
            input.extend_from_slice(b"tail");
            if kind.starts_with("string") {
                input.push(b'"');
            }
            if rng.bool() {
                input.extend_from_slice(b" next");
            }
            let still_invalid = invalid && std::str::from_utf8(&input).is_err();
            let q = q_for(dialect, rng);
            rep.count(&format!("long-token:{}:{}", kind, if still_invalid { "illformed" } else { "wellformed" }));
            rep.max("max_long_token", input.len() as u64);
            let _ = class;
            observe(rep, &input, &q, still_invalid, Ctxt::InToken, "long-token");
        }),
    ));
    out.push(CaseSet::new("escape-multibyte-alignment", ctx.size(60_000, 4_500_000), Box::new(move |rep, rng, _| alignment_case(rep, rng))));

    // random corrupted soup (no demand, observation only)
    out.push(CaseSet::new(
        "corrupted-soup",
        ctx.size(30_000, 1_800_000),
        Box::new(move |rep, rng, _| {
            let mut b = crate::gen::text::token_soup(rng, 8);
            if rng.chance(2, 3) {
                crate::gen::text::corrupt(rng, &mut b);
            }
            let q = Q::from_index(rng.below(N_Q));
            observe(rep, &b, &q, false, Ctxt::Free, "soup");
        }),
    ));

    let tb = Arc::new(Tables::new());
    let mut cfg = GenCfg::default_dialect();
    cfg.name_ok = gen::any_name;
    let cfg = Arc::new(cfg);
    let per = ctx.size(120, 9_000);
    out.push(CaseSet::new(
        "print-side-all-option-sets",
        N_P as u64 * per,
        Box::new(move |rep, rng, case| print_side(rep, rng, &cfg, &tb, (case / per) as usize)),
    ));

    // undefined-behaviour interpreter on a fixed slice of the workload (thorough tier only,
    // main build only: Miri interprets the default-feature configuration)
    if ctx.thorough && !ctx.nofast {
        out.push(CaseSet::new("miri", 16, Box::new(move |rep, _rng, case| miri_shard(rep, case, 16))));
    }
    out
}

fn miri_shard(rep: &mut Report, shard: u64, n: u64) {
    let root = std::env::var("VH_ROOT").unwrap_or_else(|_| "/verif".into());
    let target = std::env::var("VH_TARGET").unwrap_or_else(|_| format!("{}/target", root));
    let args: Vec<String> = vec!["+nightly".into(), "miri".into(), "run".into(), "--offline".into(), "--quiet".into(), "--target-dir".into(), format!("{}/miri", target), "--".into(), shard.to_string(), n.to_string()];
    let r = crate::mon::child::run_in(
        "cargo",
        &args,
        Some(&format!("{}/harness/vmiri", root)),
        &[("RUSTFLAGS", "--cfg lexpr_verif".to_string()), ("MIRIFLAGS", "-Zmiri-disable-isolation".to_string()), ("CARGO_NET_OFFLINE", "true".to_string())],
        std::time::Duration::from_secs(3600),
    );
    rep.eval();
    let done = r.stdout.lines().find(|l| l.starts_with("MIRI-DONE")).map(|s| s.to_string());
    match (&r.exit, done) {
        (crate::mon::child::Exit::Code(0), Some(line)) => {
            rep.count("miri:shards-clean");
            for part in line.split_whitespace().skip(1) {
                if let Some((k, v)) = part.split_once('=') {
                    rep.count_n(&format!("miri:{}", k), v.parse().unwrap_or(0));
                }
            }
            rep.distinct(hash2(0x3141, shard));
        }
        (_, _) if r.stderr_tail.contains("Undefined Behavior") => {
            rep.violation("miri", "C17:miri-undefined-behaviour".into(), format!("Miri reports undefined behaviour in shard {}: {}", shard, r.stderr_tail), json!({"shard": shard, "nshards": n}));
        }
        (_, _) if r.stderr_tail.contains("ill-formed str") || r.stderr_tail.contains("lexpr_verif:utf8") => {
            rep.violation("miri", "C17:miri-illformed-str".into(), format!("vmiri shard {} observed an ill-formed str: {}", shard, r.stderr_tail), json!({"shard": shard}));
        }
        (other, _) => rep.inconclusive(format!("miri shard {} did not complete: {:?} {}", shard, other, r.stderr_tail.lines().rev().take(3).collect::<Vec<_>>().join(" | "))),
    }
}
