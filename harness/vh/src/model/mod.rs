pub mod cmp;
pub mod num;
pub mod reader;
