//! Numeric oracle: exact big integers, literal scanning, and the C05
//! exactness / accuracy / range clauses.

/// Minimal non-negative bignum, little-endian base 10^9.
#[derive(Clone, Debug, PartialEq, Eq)]
pub struct Big(Vec<u32>);

const BASE: u64 = 1_000_000_000;

impl Big {
    pub fn zero() -> Big {
        Big(vec![])
    }
    pub fn is_zero(&self) -> bool {
        self.0.is_empty()
    }
    pub fn mul_small(&mut self, m: u32) {
        let mut carry: u64 = 0;
        for d in self.0.iter_mut() {
            let x = (*d as u64) * (m as u64) + carry;
            *d = (x % BASE) as u32;
            carry = x / BASE;
        }
        while carry > 0 {
            self.0.push((carry % BASE) as u32);
            carry /= BASE;
        }
    }
    pub fn add_small(&mut self, a: u32) {
        let mut carry = a as u64;
        for d in self.0.iter_mut() {
            if carry == 0 {
                break;
            }
            let x = *d as u64 + carry;
            *d = (x % BASE) as u32;
            carry = x / BASE;
        }
        while carry > 0 {
            self.0.push((carry % BASE) as u32);
            carry /= BASE;
        }
    }
    pub fn from_digits(digits: &[u8], radix: u32) -> Option<Big> {
        let mut b = Big::zero();
        for &c in digits {
            let d = (c as char).to_digit(radix)?;
            b.mul_small(radix);
            b.add_small(d);
        }
        Some(b)
    }
    pub fn to_decimal(&self) -> String {
        if self.0.is_empty() {
            return "0".to_string();
        }
        let mut s = format!("{}", self.0[self.0.len() - 1]);
        for d in self.0.iter().rev().skip(1) {
            s.push_str(&format!("{:09}", d));
        }
        s
    }
    /// Value as u128 if it fits.
    pub fn to_u128(&self) -> Option<u128> {
        let mut v: u128 = 0;
        for d in self.0.iter().rev() {
            v = v.checked_mul(BASE as u128)?.checked_add(*d as u128)?;
        }
        Some(v)
    }
}

/// What a numeric literal must evaluate to.
#[derive(Clone, Debug)]
pub enum Expect {
    /// exactly this integer (in [-2^63, 2^64-1])
    Int(i128),
    /// a float; `exact` = must equal `c` bit for bit, else accuracy clause
    Float { c: f64, exact: bool, near_overflow: bool },
    /// magnitude too large: must be rejected as out of range
    OutOfRange { near_max: bool },
}

#[derive(Clone, Debug)]
pub struct Lit {
    pub radix: u32,
    pub neg: bool,
    pub int_digits: Vec<u8>,
    pub frac_digits: Option<Vec<u8>>,
    /// (negative?, digits)
    pub exp: Option<(bool, Vec<u8>)>,
}

/// Scan a literal of the C05 grammar. Returns None when the text is not in it.
pub fn scan_literal(text: &[u8]) -> Option<Lit> {
    let mut i = 0;
    let mut radix = 10;
    let mut had_prefix = false;
    if text.len() >= 2 && text[0] == b'#' {
        radix = match text[1] {
            b'b' => 2,
            b'o' => 8,
            b'd' => 10,
            b'x' => 16,
            _ => return None,
        };
        had_prefix = true;
        i = 2;
    }
    let mut neg = false;
    if i < text.len() && (text[i] == b'+' || text[i] == b'-') {
        neg = text[i] == b'-';
        i += 1;
    }
    let start = i;
    while i < text.len() && (text[i] as char).to_digit(radix).is_some() {
        // in radix 10 'e' is not a digit; in radix 16 it is
        i += 1;
    }
    if i == start {
        return None;
    }
    let int_digits = text[start..i].to_vec();
    let mut frac_digits = None;
    let mut exp = None;
    if i < text.len() {
        if radix != 10 || had_prefix {
            // the grammar has prefixed forms for integers only
            return None;
        }
        if text[i] == b'.' {
            i += 1;
            let fs = i;
            while i < text.len() && text[i].is_ascii_digit() {
                i += 1;
            }
            if i == fs {
                return None;
            }
            frac_digits = Some(text[fs..i].to_vec());
        }
        if i < text.len() && (text[i] == b'e' || text[i] == b'E') {
            i += 1;
            let mut eneg = false;
            if i < text.len() && (text[i] == b'+' || text[i] == b'-') {
                eneg = text[i] == b'-';
                i += 1;
            }
            let es = i;
            while i < text.len() && text[i].is_ascii_digit() {
                i += 1;
            }
            if i == es {
                return None;
            }
            exp = Some((eneg, text[es..i].to_vec()));
        }
        if i != text.len() {
            return None;
        }
    }
    Some(Lit { radix, neg, int_digits, frac_digits, exp })
}

fn strip_leading_zeros(d: &[u8]) -> &[u8] {
    let mut i = 0;
    while i < d.len() && d[i] == b'0' {
        i += 1;
    }
    &d[i..]
}

/// Correctly rounded double of `digits * 10^exp10` (decimal digits), via the
/// standard library's correctly rounding parser.
pub fn correctly_rounded(digits: &str, exp10: i64) -> f64 {
    let e = exp10.clamp(-100_000, 100_000);
    let d = digits.trim_start_matches('0');
    if d.is_empty() {
        return 0.0;
    }
    format!("{}e{}", d, e).parse::<f64>().unwrap()
}

pub const TOL: f64 = 1.1102230246251565e-15; // 2^-50 + 2^-52

fn next_up(x: f64) -> f64 {
    if x.is_nan() || x == f64::INFINITY {
        return x;
    }
    if x == 0.0 {
        return f64::from_bits(1);
    }
    let b = x.to_bits();
    if x > 0.0 {
        f64::from_bits(b + 1)
    } else {
        f64::from_bits(b - 1)
    }
}
fn next_down(x: f64) -> f64 {
    -next_up(-x)
}

/// The accuracy clause: `r` is acceptable for correctly rounded `c`.
pub fn accurate(r: f64, c: f64) -> bool {
    if r.is_nan() || r.is_infinite() {
        return false;
    }
    if r == c {
        return true;
    }
    if c == 0.0 || c.abs() < f64::MIN_POSITIVE {
        // zero / subnormal: no relative bound is attainable; accept neighbours
        return r == next_up(c) || r == next_down(c) || (c == 0.0 && r.abs() <= f64::from_bits(1));
    }
    (r - c).abs() <= TOL * c.abs()
}

/// Decide what the literal must evaluate to.
/// `nofast`: crate built without fast-float-parsing.
pub fn expect(l: &Lit, nofast: bool) -> Expect {
    if l.frac_digits.is_none() && l.exp.is_none() {
        // integer literal
        let big = Big::from_digits(&l.int_digits, l.radix).unwrap();
        if let Some(v) = big.to_u128() {
            let sv: i128 = if l.neg { -(v as i128) } else { v as i128 };
            if v <= u64::MAX as u128 && sv >= i64::MIN as i128 && sv <= u64::MAX as i128 {
                return Expect::Int(sv);
            }
        }
        let dec = big.to_decimal();
        let c = correctly_rounded(&dec, 0);
        return float_expect(&dec, 0, c, l.neg, false);
    }
    // decimal literal: significand digits and power of ten
    let mut digits: Vec<u8> = l.int_digits.clone();
    let mut p: i64 = 0;
    if let Some(f) = &l.frac_digits {
        digits.extend_from_slice(f);
        p -= f.len() as i64;
    }
    if let Some((eneg, ed)) = &l.exp {
        let eds = strip_leading_zeros(ed);
        let ev: i64 = if eds.len() > 7 {
            10_000_000
        } else if eds.is_empty() {
            0
        } else {
            std::str::from_utf8(eds).unwrap().parse::<i64>().unwrap()
        };
        p += if *eneg { -ev } else { ev };
    }
    let sig = strip_leading_zeros(&digits);
    // strip trailing zeros into the exponent for the exactness decision
    let mut sig_t = sig.to_vec();
    let mut p_t = p;
    while sig_t.len() > 1 && *sig_t.last().unwrap() == b'0' {
        sig_t.pop();
        p_t += 1;
    }
    let dec = String::from_utf8(sig.to_vec()).unwrap();
    let c = correctly_rounded(&dec, p);
    // exactness clause, evaluated on the literal as written (sig, p) and also
    // on the trailing-zero-stripped form; demanded only if BOTH qualify, so the
    // oracle never asks for more than the statement.
    let fits53 = |d: &[u8]| -> bool {
        d.len() <= 16
            && std::str::from_utf8(d)
                .ok()
                .and_then(|s| if s.is_empty() { Some(0u64) } else { s.parse::<u64>().ok() })
                .map_or(false, |v| v < (1u64 << 53))
    };
    let exact_fast = fits53(sig) && p.abs() <= 22 && fits53(&sig_t) && p_t.abs() <= 22;
    let exact_nofast = sig.len() <= 19;
    let exact = exact_fast || (nofast && exact_nofast);
    float_expect(&dec, p, c, l.neg, exact)
}

fn float_expect(dec: &str, p: i64, c: f64, neg: bool, exact: bool) -> Expect {
    // closeness to the overflow threshold, judged on value/10
    let c10 = correctly_rounded(dec, p - 1);
    let thr = f64::MAX / 10.0;
    let near = c10.is_finite() && c10 >= thr * (1.0 - 4.0 * TOL) && c10 <= thr * (1.0 + 4.0 * TOL);
    if c.is_infinite() {
        return Expect::OutOfRange { near_max: near };
    }
    Expect::Float { c: if neg { -c } else { c }, exact, near_overflow: near }
}

/// Shortest-decimal-form facts of a finite double: (#significant digits,
/// power of ten of the integer significand).
pub fn shortest_form(f: f64) -> (usize, i64) {
    if f == 0.0 {
        return (1, 0);
    }
    let s = format!("{:e}", f.abs());
    let (m, e) = s.split_once('e').unwrap();
    let digits: String = m.chars().filter(|c| c.is_ascii_digit()).collect();
    let n = digits.len();
    let e: i64 = e.parse().unwrap();
    (n, e - (n as i64 - 1))
}

/// C01 float rule: is `got` an acceptable reading of printed `orig`?
pub fn float_roundtrip_ok(orig: f64, got: f64, nofast: bool) -> bool {
    if orig.to_bits() == got.to_bits() {
        return true;
    }
    if nofast {
        return false;
    }
    let (n, p) = shortest_form(orig);
    if n <= 15 && p.abs() <= 22 {
        return false; // bit-exactness demanded
    }
    if orig == 0.0 || got == 0.0 {
        // sign of zero must be preserved; zero must stay zero
        return false;
    }
    accurate(got, orig)
}

#[cfg(test)]
mod tests {
    use super::*;
    #[test]
    fn big() {
        let b = Big::from_digits(b"FFFFFFFFFFFFFFFFF", 16).unwrap();
        assert_eq!(b.to_decimal(), "295147905179352825855");
        let b = Big::from_digits(b"18446744073709551616", 10).unwrap();
        assert_eq!(b.to_u128(), Some(1u128 << 64));
    }
    #[test]
    fn scan() {
        let l = scan_literal(b"-12.50e+3").unwrap();
        assert!(l.neg);
        match expect(&l, false) {
            Expect::Float { c, exact, .. } => {
                assert_eq!(c, -12500.0);
                assert!(exact);
            }
            _ => panic!(),
        }
        assert!(scan_literal(b"1e").is_none());
        assert!(scan_literal(b"#x1.5").is_none());
        match expect(&scan_literal(b"1e400").unwrap(), false) {
            Expect::OutOfRange { .. } => {}
            _ => panic!(),
        }
        match expect(&scan_literal(b"#x-8000000000000000").unwrap(), false) {
            Expect::Int(v) => assert_eq!(v, i64::MIN as i128),
            _ => panic!(),
        }
        assert_eq!(shortest_form(1e21), (1, 21));
        assert_eq!(shortest_form(1.5), (2, -1));
    }
}
