//! Independent reference readers, written from R7RS section 7.1.1 (plus the
//! documented extensions `#:kw`, `#nil`, `#vu8(`, R6RS `\xH..;`, brackets) and
//! from the Emacs Lisp subset described in lexpr/docs/elisp-strings.md and
//! the Emacs Lisp manual sections it cites. They share no code with lexpr and
//! are deliberately strict: anything outside the grammar is an error.

use crate::model::num::{self, Big};
use lexpr::Value;

#[derive(Clone, Copy, PartialEq, Debug)]
pub enum Dialect {
    Scheme,
    Elisp,
}

pub struct Reader<'a> {
    s: &'a [char],
    i: usize,
    d: Dialect,
    depth: usize,
}

type R<T> = Result<T, String>;

fn is_ws(c: char) -> bool {
    matches!(c, ' ' | '\t' | '\n' | '\r' | '\x0C')
}

fn scheme_delim(c: char) -> bool {
    is_ws(c) || matches!(c, '|' | '(' | ')' | '"' | ';' | '[' | ']')
}

fn elisp_delim(c: char) -> bool {
    is_ws(c) || matches!(c, '(' | ')' | '[' | ']' | '"' | ';' | '\'' | '`' | ',')
}

pub fn read_one(text: &str, d: Dialect) -> R<Value> {
    let chars: Vec<char> = text.chars().collect();
    let mut r = Reader { s: &chars, i: 0, d, depth: 0 };
    r.skip_trivia();
    if r.i >= r.s.len() {
        return Err("empty input".into());
    }
    let v = r.datum()?;
    r.skip_trivia();
    if r.i < r.s.len() {
        return Err(format!("trailing text at char {}", r.i));
    }
    Ok(v)
}

pub fn read_all(text: &str, d: Dialect) -> R<Vec<Value>> {
    let chars: Vec<char> = text.chars().collect();
    let mut r = Reader { s: &chars, i: 0, d, depth: 0 };
    let mut out = Vec::new();
    loop {
        r.skip_trivia();
        if r.i >= r.s.len() {
            return Ok(out);
        }
        out.push(r.datum()?);
    }
}

impl<'a> Reader<'a> {
    fn peek(&self) -> Option<char> {
        self.s.get(self.i).copied()
    }
    fn peek_at(&self, k: usize) -> Option<char> {
        self.s.get(self.i + k).copied()
    }
    fn bump(&mut self) -> Option<char> {
        let c = self.peek();
        if c.is_some() {
            self.i += 1;
        }
        c
    }
    fn delim(&self, c: char) -> bool {
        match self.d {
            Dialect::Scheme => scheme_delim(c),
            Dialect::Elisp => elisp_delim(c),
        }
    }
    fn at_delim(&self) -> bool {
        match self.peek() {
            None => true,
            Some(c) => self.delim(c),
        }
    }

    fn skip_trivia(&mut self) {
        loop {
            match self.peek() {
                Some(c) if is_ws(c) => {
                    self.i += 1;
                }
                Some(';') => {
                    while let Some(c) = self.bump() {
                        if c == '\n' {
                            break;
                        }
                    }
                }
                _ => return,
            }
        }
    }

    fn token(&mut self) -> String {
        let mut t = String::new();
        while let Some(c) = self.peek() {
            if self.delim(c) {
                break;
            }
            t.push(c);
            self.i += 1;
        }
        t
    }

    fn datum(&mut self) -> R<Value> {
        self.depth += 1;
        if self.depth > 2000 {
            return Err("reference reader: nesting too deep".into());
        }
        let r = self.datum_inner();
        self.depth -= 1;
        r
    }

    fn datum_inner(&mut self) -> R<Value> {
        let c = self.peek().ok_or("unexpected end of input")?;
        match c {
            '(' => {
                self.i += 1;
                self.list(')')
            }
            '[' => {
                self.i += 1;
                match self.d {
                    Dialect::Scheme => self.list(']'),
                    Dialect::Elisp => {
                        let items = self.seq(']')?;
                        Ok(Value::vector(items))
                    }
                }
            }
            ')' | ']' => Err(format!("unexpected closer at char {}", self.i)),
            '"' => {
                self.i += 1;
                match self.d {
                    Dialect::Scheme => self.scheme_string(),
                    Dialect::Elisp => self.elisp_string(),
                }
            }
            '\'' => self.quoted("quote", 1),
            '`' => self.quoted("quasiquote", 1),
            ',' => {
                if self.peek_at(1) == Some('@') {
                    self.quoted("unquote-splicing", 2)
                } else {
                    self.quoted("unquote", 1)
                }
            }
            '#' if self.d == Dialect::Scheme => self.scheme_hash(),
            '?' if self.d == Dialect::Elisp => {
                self.i += 1;
                self.elisp_char()
            }
            '|' => Err("|symbol| syntax not in the reference subset".into()),
            _ => {
                let start = self.i;
                let t = self.token();
                if t.is_empty() {
                    return Err(format!("unexpected character {:?} at char {}", c, start));
                }
                match self.d {
                    Dialect::Scheme => scheme_atom(&t),
                    Dialect::Elisp => elisp_atom(&t),
                }
            }
        }
    }

    fn quoted(&mut self, name: &str, skip: usize) -> R<Value> {
        self.i += skip;
        self.skip_trivia();
        let v = self.datum()?;
        Ok(Value::list(vec![Value::symbol(name), v]))
    }

    /// Elements up to `close` (no dots allowed).
    fn seq(&mut self, close: char) -> R<Vec<Value>> {
        let mut items = Vec::new();
        loop {
            self.skip_trivia();
            match self.peek() {
                None => return Err("end of input inside sequence".into()),
                Some(c) if c == close => {
                    self.i += 1;
                    return Ok(items);
                }
                Some(')') | Some(']') => return Err("mismatched closer".into()),
                _ => items.push(self.datum()?),
            }
        }
    }

    fn list(&mut self, close: char) -> R<Value> {
        let mut items = Vec::new();
        loop {
            self.skip_trivia();
            match self.peek() {
                None => return Err("end of input inside list".into()),
                Some(c) if c == close => {
                    self.i += 1;
                    return Ok(Value::list(items));
                }
                Some(')') | Some(']') => return Err("mismatched closer".into()),
                Some('.') if self.peek_at(1).map_or(true, |c| self.delim(c)) => {
                    if items.is_empty() {
                        return Err("dot at start of list".into());
                    }
                    self.i += 1;
                    self.skip_trivia();
                    let tail = self.datum()?;
                    self.skip_trivia();
                    if self.peek() != Some(close) {
                        return Err("expected closer after dotted tail".into());
                    }
                    self.i += 1;
                    return Ok(Value::append(items, tail));
                }
                _ => items.push(self.datum()?),
            }
        }
    }

    // ----------------------------------------------------------------- Scheme

    fn scheme_hash(&mut self) -> R<Value> {
        // self.peek() == '#'
        match self.peek_at(1) {
            Some('(') => {
                self.i += 2;
                Ok(Value::vector(self.seq(')')?))
            }
            Some('\\') => {
                self.i += 2;
                self.scheme_char()
            }
            Some(':') => {
                self.i += 2;
                let t = self.token();
                if !is_r7rs_identifier(&t) {
                    return Err(format!("#: followed by non-identifier {:?}", t));
                }
                Ok(Value::keyword(t))
            }
            _ => {
                let t = self.token();
                match t.as_str() {
                    "#t" | "#true" => Ok(Value::Bool(true)),
                    "#f" | "#false" => Ok(Value::Bool(false)),
                    "#nil" => Ok(Value::Nil),
                    "#u8" | "#vu8" => {
                        if self.peek() != Some('(') {
                            return Err("bytevector prefix without (".into());
                        }
                        self.i += 1;
                        let items = self.seq(')')?;
                        let mut bytes = Vec::new();
                        for it in items {
                            match it.as_u64() {
                                Some(n) if n <= 255 => bytes.push(n as u8),
                                _ => return Err("bytevector element not an octet".into()),
                            }
                        }
                        Ok(Value::bytes(bytes))
                    }
                    _ => match scheme_number(&t) {
                        Some(v) => Ok(v),
                        None => Err(format!("unknown # syntax {:?}", t)),
                    },
                }
            }
        }
    }

    fn scheme_char(&mut self) -> R<Value> {
        let c = self.bump().ok_or("end of input in character")?;
        // the rest of the token, up to a delimiter
        let mut rest = String::new();
        while let Some(n) = self.peek() {
            if self.delim(n) {
                break;
            }
            rest.push(n);
            self.i += 1;
        }
        if rest.is_empty() {
            return Ok(Value::Char(c));
        }
        let mut name = String::new();
        name.push(c);
        name.push_str(&rest);
        if c == 'x' && rest.chars().all(|h| h.is_ascii_hexdigit()) {
            let n = u32::from_str_radix(&rest, 16).map_err(|_| "hex char too large".to_string())?;
            return char::from_u32(n).map(Value::Char).ok_or_else(|| "not a scalar value".to_string());
        }
        let ch = match name.as_str() {
            "alarm" => '\x07',
            "backspace" => '\x08',
            "delete" => '\x7F',
            "escape" | "esc" => '\x1B',
            "newline" | "linefeed" => '\n',
            "null" | "nul" => '\0',
            "return" => '\r',
            "space" => ' ',
            "tab" => '\t',
            "vtab" => '\x0B',
            "page" => '\x0C',
            _ => return Err(format!("unknown character name {:?}", name)),
        };
        Ok(Value::Char(ch))
    }

    fn scheme_string(&mut self) -> R<Value> {
        let mut out = String::new();
        loop {
            let c = self.bump().ok_or("end of input in string")?;
            match c {
                '"' => return Ok(Value::string(out)),
                '\\' => {
                    let e = self.bump().ok_or("end of input in escape")?;
                    match e {
                        'a' => out.push('\x07'),
                        'b' => out.push('\x08'),
                        't' => out.push('\t'),
                        'n' => out.push('\n'),
                        'r' => out.push('\r'),
                        'v' => out.push('\x0B'),
                        'f' => out.push('\x0C'),
                        '"' => out.push('"'),
                        '\\' => out.push('\\'),
                        '|' => out.push('|'),
                        'x' | 'X' => {
                            let mut h = String::new();
                            loop {
                                let d = self.bump().ok_or("end of input in hex escape")?;
                                if d == ';' {
                                    break;
                                }
                                if !d.is_ascii_hexdigit() {
                                    return Err("bad hex escape".into());
                                }
                                h.push(d);
                            }
                            if h.is_empty() || h.len() > 8 {
                                return Err("bad hex escape".into());
                            }
                            let n = u32::from_str_radix(&h, 16).unwrap();
                            out.push(char::from_u32(n).ok_or("hex escape not a scalar value")?);
                        }
                        ' ' | '\t' | '\n' => {
                            // line continuation: \ <intraline ws>* newline <intraline ws>*
                            let mut k = e;
                            while k == ' ' || k == '\t' {
                                k = self.bump().ok_or("end of input in continuation")?;
                            }
                            if k != '\n' {
                                return Err("bad line continuation".into());
                            }
                            while matches!(self.peek(), Some(' ') | Some('\t')) {
                                self.i += 1;
                            }
                        }
                        _ => return Err(format!("unknown string escape \\{}", e)),
                    }
                }
                c => out.push(c),
            }
        }
    }

    // ------------------------------------------------------------------ Elisp

    fn hex_run(&mut self) -> String {
        let mut h = String::new();
        while let Some(c) = self.peek() {
            if c.is_ascii_hexdigit() {
                h.push(c);
                self.i += 1;
            } else {
                break;
            }
        }
        h
    }

    fn fixed_hex(&mut self, n: usize) -> R<u32> {
        let mut v = 0u32;
        for _ in 0..n {
            let c = self.bump().ok_or("end of input in \\u escape")?;
            let d = c.to_digit(16).ok_or("bad \\u escape")?;
            v = v * 16 + d;
        }
        Ok(v)
    }

    /// After `?`. Emacs Lisp manual 2.4.3 (basic, general-escape syntax;
    /// control/meta keyboard syntaxes other than \^X are outside the subset).
    fn elisp_char(&mut self) -> R<Value> {
        let c = self.bump().ok_or("end of input in character")?;
        let ch = if c == '\\' {
            let e = self.bump().ok_or("end of input in character escape")?;
            match e {
                'a' => '\x07',
                'b' => '\x08',
                't' => '\t',
                'n' => '\n',
                'v' => '\x0B',
                'f' => '\x0C',
                'r' => '\r',
                'e' => '\x1B',
                's' => ' ',
                'd' => '\x7F',
                '\\' => '\\',
                '^' => {
                    let k = self.bump().ok_or("end of input in control char")?;
                    if k.is_ascii_alphabetic() {
                        ((k.to_ascii_uppercase() as u8) & 0x1F) as char
                    } else {
                        return Err("control syntax outside subset".into());
                    }
                }
                'x' => {
                    let h = self.hex_run();
                    if h.is_empty() || h.len() > 8 {
                        return Err("bad ?\\x".into());
                    }
                    char::from_u32(u32::from_str_radix(&h, 16).unwrap()).ok_or("not a scalar value")?
                }
                'u' => char::from_u32(self.fixed_hex(4)?).ok_or("not a scalar value")?,
                'U' => char::from_u32(self.fixed_hex(8)?).ok_or("not a scalar value")?,
                'N' => {
                    if self.bump() != Some('{') || self.bump() != Some('U') || self.bump() != Some('+') {
                        return Err("\\N outside subset".into());
                    }
                    let h = self.hex_run();
                    if self.bump() != Some('}') || h.is_empty() || h.len() > 8 {
                        return Err("bad \\N{U+..}".into());
                    }
                    char::from_u32(u32::from_str_radix(&h, 16).unwrap()).ok_or("not a scalar value")?
                }
                '0'..='7' => {
                    let mut v = e.to_digit(8).unwrap();
                    while let Some(d) = self.peek().and_then(|c| c.to_digit(8)) {
                        v = v.checked_mul(8).and_then(|x| x.checked_add(d)).ok_or("octal too large")?;
                        self.i += 1;
                    }
                    char::from_u32(v).ok_or("not a scalar value")?
                }
                'C' | 'M' | 'S' | 'H' | 'A' => return Err("modifier syntax outside subset".into()),
                other => other,
            }
        } else {
            // Emacs signals an error for ?( ?) ?[ ?] ?; without backslash? It
            // reads them with a warning at best; the subset requires the escape.
            if matches!(c, '(' | ')' | '[' | ']' | ';') {
                return Err(format!("character {:?} needs a backslash", c));
            }
            c
        };
        // a character literal must be followed by a delimiter (Emacs: "?ab" is an error)
        if !self.at_delim() {
            return Err("character literal followed by more characters".into());
        }
        Ok(Value::Char(ch))
    }

    fn elisp_string(&mut self) -> R<Value> {
        // Build both interpretations; decide uni/multibyte at the end
        // (Emacs Lisp manual 2.4.8.2; docs/elisp-strings.md).
        let mut chars: Vec<u32> = Vec::new(); // code points or raw bytes
        let mut raw_byte: Vec<bool> = Vec::new();
        let mut has_byte_escape = false;
        let mut has_multibyte = false;
        loop {
            let c = self.bump().ok_or("end of input in string")?;
            match c {
                '"' => break,
                '\\' => {
                    let e = self.bump().ok_or("end of input in escape")?;
                    let simple = |x: char, chars: &mut Vec<u32>, raw: &mut Vec<bool>| {
                        chars.push(x as u32);
                        raw.push(false);
                    };
                    match e {
                        'a' => simple('\x07', &mut chars, &mut raw_byte),
                        'b' => simple('\x08', &mut chars, &mut raw_byte),
                        't' => simple('\t', &mut chars, &mut raw_byte),
                        'n' => simple('\n', &mut chars, &mut raw_byte),
                        'v' => simple('\x0B', &mut chars, &mut raw_byte),
                        'f' => simple('\x0C', &mut chars, &mut raw_byte),
                        'r' => simple('\r', &mut chars, &mut raw_byte),
                        'e' => simple('\x1B', &mut chars, &mut raw_byte),
                        's' => simple(' ', &mut chars, &mut raw_byte),
                        'd' => simple('\x7F', &mut chars, &mut raw_byte),
                        '"' => simple('"', &mut chars, &mut raw_byte),
                        '\\' => simple('\\', &mut chars, &mut raw_byte),
                        ' ' | '\n' => {} // ignored
                        'x' => {
                            let h = self.hex_run();
                            if h.is_empty() || h.len() > 8 {
                                return Err("bad \\x escape".into());
                            }
                            let v = u32::from_str_radix(&h, 16).unwrap();
                            if v <= 0xFF {
                                has_byte_escape = true;
                                chars.push(v);
                                raw_byte.push(true);
                            } else {
                                has_multibyte = true;
                                char::from_u32(v).ok_or("not a scalar value")?;
                                chars.push(v);
                                raw_byte.push(false);
                            }
                        }
                        '0'..='7' => {
                            let mut v = e.to_digit(8).unwrap();
                            let mut n = 1;
                            while n < 3 {
                                match self.peek().and_then(|c| c.to_digit(8)) {
                                    Some(d) => {
                                        v = v * 8 + d;
                                        self.i += 1;
                                        n += 1;
                                    }
                                    None => break,
                                }
                            }
                            if v > 0xFF {
                                return Err("octal escape out of byte range".into());
                            }
                            has_byte_escape = true;
                            chars.push(v);
                            raw_byte.push(true);
                        }
                        'u' => {
                            let v = self.fixed_hex(4)?;
                            char::from_u32(v).ok_or("not a scalar value")?;
                            has_multibyte = true;
                            chars.push(v);
                            raw_byte.push(false);
                        }
                        'U' => {
                            let v = self.fixed_hex(8)?;
                            char::from_u32(v).ok_or("not a scalar value")?;
                            has_multibyte = true;
                            chars.push(v);
                            raw_byte.push(false);
                        }
                        'N' => {
                            if self.bump() != Some('{') || self.bump() != Some('U') || self.bump() != Some('+') {
                                return Err("\\N outside subset".into());
                            }
                            let h = self.hex_run();
                            if self.bump() != Some('}') || h.is_empty() || h.len() > 8 {
                                return Err("bad \\N{U+..}".into());
                            }
                            let v = u32::from_str_radix(&h, 16).unwrap();
                            char::from_u32(v).ok_or("not a scalar value")?;
                            has_multibyte = true;
                            chars.push(v);
                            raw_byte.push(false);
                        }
                        '^' | 'C' | 'M' | 'S' | 'H' | 'A' => {
                            return Err("keyboard escape outside subset".into())
                        }
                        other => {
                            if (other as u32) > 127 {
                                has_multibyte = true;
                            }
                            simple(other, &mut chars, &mut raw_byte)
                        }
                    }
                }
                c => {
                    if (c as u32) > 127 {
                        has_multibyte = true;
                    }
                    chars.push(c as u32);
                    raw_byte.push(false);
                }
            }
        }
        if has_byte_escape && !has_multibyte {
            // unibyte string == byte vector
            Ok(Value::bytes(chars.iter().map(|&v| v as u8).collect::<Vec<u8>>()))
        } else {
            // multibyte; raw bytes >= 0x80 in a multibyte string are not
            // Unicode characters (outside the subset)
            let mut s = String::new();
            for (v, raw) in chars.iter().zip(raw_byte.iter()) {
                if *raw && *v >= 0x80 {
                    return Err("raw byte in multibyte string (outside subset)".into());
                }
                s.push(char::from_u32(*v).ok_or("not a scalar value")?);
            }
            Ok(Value::string(s))
        }
    }
}

// --------------------------------------------------------------------- atoms

fn is_initial(c: char) -> bool {
    c.is_ascii_alphabetic() || "!$%&*/:<=>?^_~".contains(c) || ((c as u32) > 127 && c.is_alphabetic())
}
fn is_subsequent(c: char) -> bool {
    is_initial(c) || c.is_ascii_digit() || "+-.@".contains(c) || ((c as u32) > 127 && c.is_numeric())
}
fn is_sign_subsequent(c: char) -> bool {
    is_initial(c) || "+-@".contains(c)
}

pub fn is_r7rs_identifier(t: &str) -> bool {
    let cs: Vec<char> = t.chars().collect();
    if cs.is_empty() {
        return false;
    }
    if is_initial(cs[0]) {
        return cs[1..].iter().all(|&c| is_subsequent(c));
    }
    // peculiar identifiers
    if t == "+" || t == "-" || t == "..." {
        return true;
    }
    let rest_ok = |from: usize| cs[from..].iter().all(|&c| is_subsequent(c));
    if cs[0] == '+' || cs[0] == '-' {
        if cs.len() >= 2 && is_sign_subsequent(cs[1]) {
            return rest_ok(2);
        }
        if cs.len() >= 3 && cs[1] == '.' && (is_sign_subsequent(cs[2]) || cs[2] == '.') {
            return rest_ok(3);
        }
        return false;
    }
    if cs[0] == '.' {
        if cs.len() >= 2 && (is_sign_subsequent(cs[1]) || cs[1] == '.') {
            return rest_ok(2);
        }
    }
    false
}

fn int_value(neg: bool, digits: &str, radix: u32) -> Option<Value> {
    let big = Big::from_digits(digits.as_bytes(), radix)?;
    if let Some(v) = big.to_u128() {
        if !neg && v <= u64::MAX as u128 {
            return Some(Value::from(v as u64));
        }
        if neg && v <= (1u128 << 63) {
            if v == 0 {
                return Some(Value::from(0u64));
            }
            return Some(Value::from((-(v as i128)) as i64));
        }
    }
    let c = num::correctly_rounded(&big.to_decimal(), 0);
    Some(Value::from(if neg { -c } else { c }))
}

/// R7RS <number> restricted to exact integers in any radix and decimal reals.
pub fn scheme_number(t: &str) -> Option<Value> {
    let mut s = t;
    let mut radix = 10;
    if s.starts_with('#') {
        let p = s.get(..2)?;
        radix = match p {
            "#b" | "#B" => 2,
            "#o" | "#O" => 8,
            "#d" | "#D" => 10,
            "#x" | "#X" => 16,
            _ => return None,
        };
        s = &s[2..];
    }
    let (neg, body) = if let Some(r) = s.strip_prefix('-') {
        (true, r)
    } else if let Some(r) = s.strip_prefix('+') {
        (false, r)
    } else {
        (false, s)
    };
    if body.is_empty() {
        return None;
    }
    if body.chars().all(|c| c.is_digit(radix)) {
        return int_value(neg, body, radix);
    }
    if radix != 10 {
        return None;
    }
    // decimal: digits+ [. digits*] [e[+-]digits+] | . digits+ [...]
    let (mant, exp) = match body.find(|c| c == 'e' || c == 'E') {
        Some(k) => (&body[..k], Some(&body[k + 1..])),
        None => (body, None),
    };
    let (ip, fp) = match mant.find('.') {
        Some(k) => (&mant[..k], Some(&mant[k + 1..])),
        None => (mant, None),
    };
    if !ip.chars().all(|c| c.is_ascii_digit()) {
        return None;
    }
    if let Some(f) = fp {
        if !f.chars().all(|c| c.is_ascii_digit()) {
            return None;
        }
        if ip.is_empty() && f.is_empty() {
            return None;
        }
    } else if ip.is_empty() {
        return None;
    }
    let mut e10: i64 = 0;
    if let Some(e) = exp {
        let (eneg, ed) = if let Some(r) = e.strip_prefix('-') {
            (true, r)
        } else if let Some(r) = e.strip_prefix('+') {
            (false, r)
        } else {
            (false, e)
        };
        if ed.is_empty() || !ed.chars().all(|c| c.is_ascii_digit()) {
            return None;
        }
        let ev: i64 = if ed.trim_start_matches('0').len() > 7 {
            10_000_000
        } else {
            ed.parse().ok()?
        };
        e10 = if eneg { -ev } else { ev };
    }
    let mut digits = ip.to_string();
    if let Some(f) = fp {
        digits.push_str(f);
        e10 -= f.len() as i64;
    }
    let c = num::correctly_rounded(&digits, e10);
    if c.is_infinite() {
        return None;
    }
    Some(Value::from(if neg { -c } else { c }))
}

fn scheme_atom(t: &str) -> R<Value> {
    let first = t.chars().next().unwrap();
    if first.is_ascii_digit() || ((first == '+' || first == '-' || first == '.') && t.len() > 1) {
        if let Some(v) = scheme_number(t) {
            return Ok(v);
        }
    }
    if is_r7rs_identifier(t) {
        if gen_reads_as_number(t) {
            return Err(format!("{:?} is a number in R7RS", t));
        }
        return Ok(Value::symbol(t));
    }
    Err(format!("token {:?} is neither a number nor an identifier", t))
}

fn gen_reads_as_number(t: &str) -> bool {
    crate::gen::r7rs_reads_as_number(t)
}

/// Emacs Lisp: integer and float syntax (manual 2.4.1, 2.4.2).
fn elisp_number(t: &str) -> Option<Value> {
    let (neg, body) = if let Some(r) = t.strip_prefix('-') {
        (true, r)
    } else if let Some(r) = t.strip_prefix('+') {
        (false, r)
    } else {
        (false, t)
    };
    if body.is_empty() {
        return None;
    }
    // integer: digits with optional trailing '.'
    let ib = body.strip_suffix('.').unwrap_or(body);
    if !ib.is_empty() && ib.chars().all(|c| c.is_ascii_digit()) {
        return int_value(neg, ib, 10);
    }
    // float: needs a fraction digit or an exponent
    let (mant, exp) = match body.find(|c| c == 'e' || c == 'E') {
        Some(k) => (&body[..k], Some(&body[k + 1..])),
        None => (body, None),
    };
    let (ip, fp) = match mant.find('.') {
        Some(k) => (&mant[..k], Some(&mant[k + 1..])),
        None => (mant, None),
    };
    if !ip.chars().all(|c| c.is_ascii_digit()) {
        return None;
    }
    match fp {
        Some(f) => {
            if f.is_empty() || !f.chars().all(|c| c.is_ascii_digit()) {
                return None;
            }
        }
        None => {
            if ip.is_empty() || exp.is_none() {
                return None;
            }
        }
    }
    let mut e10: i64 = 0;
    if let Some(e) = exp {
        let (eneg, ed) = if let Some(r) = e.strip_prefix('-') {
            (true, r)
        } else if let Some(r) = e.strip_prefix('+') {
            (false, r)
        } else {
            (false, e)
        };
        if ed.is_empty() || !ed.chars().all(|c| c.is_ascii_digit()) {
            return None;
        }
        let ev: i64 = if ed.trim_start_matches('0').len() > 7 { 10_000_000 } else { ed.parse().ok()? };
        e10 = if eneg { -ev } else { ev };
    }
    let mut digits = ip.to_string();
    if let Some(f) = fp {
        digits.push_str(f);
        e10 -= f.len() as i64;
    }
    let c = num::correctly_rounded(&digits, e10);
    // Emacs reads overflow as infinity; such text is outside what a Value can hold
    if c.is_infinite() {
        return None;
    }
    Some(Value::from(if neg { -c } else { c }))
}

fn elisp_atom(t: &str) -> R<Value> {
    if let Some(v) = elisp_number(t) {
        return Ok(v);
    }
    if t.contains('\\') {
        return Err("escaped symbol characters are outside the subset".into());
    }
    if t.starts_with('#') {
        return Err(format!("# syntax {:?} outside the subset", t));
    }
    if t.starts_with('?') {
        return Err("? at start of symbol".into());
    }
    if t == "nil" {
        return Ok(Value::Null);
    }
    if t == "." {
        return Err("lone dot".into());
    }
    if let Some(name) = t.strip_prefix(':') {
        if name.is_empty() {
            return Err("bare colon".into());
        }
        return Ok(Value::keyword(name));
    }
    Ok(Value::symbol(t))
}

#[cfg(test)]
mod tests {
    use super::*;
    #[test]
    fn scheme_basic() {
        let v = read_one("(a 1 -2 1.5 1e21 #\\x41 #\\space \"x\\x41;\\n\" #u8(1 2) #(1) . b)", Dialect::Scheme)
            .unwrap();
        let e = Value::append(
            vec![
                Value::symbol("a"),
                Value::from(1u64),
                Value::from(-2i64),
                Value::from(1.5),
                Value::from(1e21),
                Value::Char('A'),
                Value::Char(' '),
                Value::string("xA\n"),
                Value::bytes(vec![1u8, 2]),
                Value::vector(vec![Value::from(1u64)]),
            ],
            Value::symbol("b"),
        );
        assert_eq!(v, e);
        assert!(read_one("1+", Dialect::Scheme).is_err());
        assert!(read_one("+.a", Dialect::Scheme).is_ok());
        assert!(read_one("#:foo", Dialect::Scheme).unwrap().is_keyword());
    }
    #[test]
    fn elisp_basic() {
        let v = read_one("(a :k nil t ?a ?\\x3bb \"\\001\\002\" \"a\\u00e9\" [1 2] 1e3 . 5)", Dialect::Elisp)
            .unwrap();
        let e = Value::append(
            vec![
                Value::symbol("a"),
                Value::keyword("k"),
                Value::Null,
                Value::symbol("t"),
                Value::Char('a'),
                Value::Char('λ'),
                Value::bytes(vec![1u8, 2]),
                Value::string("aé"),
                Value::vector(vec![Value::from(1u64), Value::from(2u64)]),
                Value::from(1000.0),
            ],
            Value::from(5u64),
        );
        assert_eq!(v, e);
    }
}
