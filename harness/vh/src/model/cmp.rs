//! Structural comparison of values, independent of lexpr's PartialEq, with an
//! explicit float rule; and the documented dialect folding of C02.

use crate::model::num;
use crate::opts::{PBytes, PNil, QNil, Syn, P, Q};
use lexpr::Value;

#[derive(Clone, Copy, Debug, PartialEq)]
pub enum FloatRule {
    /// bit-for-bit
    Bits,
    /// C01/C05 rule for a printed-and-reread double in the fast-float build
    RoundTripFast,
}

fn float_ok(a: f64, b: f64, rule: FloatRule) -> bool {
    match rule {
        FloatRule::Bits => a.to_bits() == b.to_bits(),
        FloatRule::RoundTripFast => num::float_roundtrip_ok(a, b, false),
    }
}

/// Compare `expected` with `got`; Err(path: description) at the first difference.
pub fn veq(expected: &Value, got: &Value, rule: FloatRule) -> Result<(), String> {
    veq_at(expected, got, rule, &mut String::new())
}

fn mismatch(path: &str, e: &Value, g: &Value) -> String {
    let show = |v: &Value| {
        let s = format!("{:?}", v);
        if s.len() > 160 {
            format!("{}...", s.chars().take(160).collect::<String>())
        } else {
            s
        }
    };
    format!("at {}: expected {} got {}", if path.is_empty() { "<root>" } else { path }, show(e), show(g))
}

fn veq_at(e: &Value, g: &Value, rule: FloatRule, path: &mut String) -> Result<(), String> {
    // iterate along cons chains to keep recursion proportional to nesting only
    let mut e = e;
    let mut g = g;
    let base = path.len();
    let mut idx = 0usize;
    loop {
        match (e, g) {
            (Value::Cons(ec), Value::Cons(gc)) => {
                let l = path.len();
                path.push_str(&format!("[{}]", idx));
                veq_at(ec.car(), gc.car(), rule, path)?;
                path.truncate(l);
                e = ec.cdr();
                g = gc.cdr();
                idx += 1;
                if idx > 0 && !(matches!(e, Value::Cons(_)) && matches!(g, Value::Cons(_))) {
                    path.truncate(base);
                    path.push_str(&format!(".tail@{}", idx));
                }
                continue;
            }
            _ => {}
        }
        let ok = match (e, g) {
            (Value::Nil, Value::Nil) => true,
            (Value::Null, Value::Null) => true,
            (Value::Bool(a), Value::Bool(b)) => a == b,
            (Value::Char(a), Value::Char(b)) => a == b,
            (Value::String(a), Value::String(b)) => a.as_bytes() == b.as_bytes(),
            (Value::Symbol(a), Value::Symbol(b)) => a.as_bytes() == b.as_bytes(),
            (Value::Keyword(a), Value::Keyword(b)) => a.as_bytes() == b.as_bytes(),
            (Value::Bytes(a), Value::Bytes(b)) => a == b,
            (Value::Number(a), Value::Number(b)) => {
                if a.is_f64() || b.is_f64() {
                    a.is_f64()
                        && b.is_f64()
                        && float_ok(a.as_f64().unwrap(), b.as_f64().unwrap(), rule)
                } else {
                    a.as_u64() == b.as_u64() && a.as_i64() == b.as_i64()
                }
            }
            (Value::Vector(a), Value::Vector(b)) => {
                if a.len() != b.len() {
                    false
                } else {
                    for (i, (x, y)) in a.iter().zip(b.iter()).enumerate() {
                        let l = path.len();
                        path.push_str(&format!("#[{}]", i));
                        veq_at(x, y, rule, path)?;
                        path.truncate(l);
                    }
                    true
                }
            }
            _ => false,
        };
        let r = if ok { Ok(()) } else { Err(mismatch(path, e, g)) };
        path.truncate(base);
        return r;
    }
}

/// Does the value contain a Bytes anywhere?
pub fn contains_bytes(v: &Value) -> bool {
    any_node(v, &|x| matches!(x, Value::Bytes(_)))
}

pub fn any_node(v: &Value, f: &dyn Fn(&Value) -> bool) -> bool {
    if f(v) {
        return true;
    }
    match v {
        Value::Cons(c) => {
            for cell in c.iter() {
                if any_node(cell.car(), f) {
                    return true;
                }
                if !matches!(cell.cdr(), Value::Cons(_)) && any_node(cell.cdr(), f) {
                    return true;
                }
            }
            false
        }
        Value::Vector(xs) => xs.iter().any(|x| any_node(x, f)),
        _ => false,
    }
}

/// Rebuild `v` bottom-up applying `f` to every atom (non-cons, non-vector).
pub fn map_atoms(v: &Value, f: &dyn Fn(&Value) -> Value) -> Value {
    match v {
        Value::Cons(c) => {
            let mut items = Vec::new();
            let mut tail = Value::Null;
            for cell in c.iter() {
                items.push(map_atoms(cell.car(), f));
                if !matches!(cell.cdr(), Value::Cons(_)) {
                    tail = map_atoms(cell.cdr(), f);
                }
            }
            // NB: a Null tail maps through f as an atom too
            Value::append(items, tail)
        }
        Value::Vector(xs) => Value::vector(xs.iter().map(|x| map_atoms(x, f)).collect::<Vec<_>>()),
        _ => f(v),
    }
}

/// The documented folding of C02: what `parse_Q(print_P(v))` must equal.
///
/// * `Nil` printed `#nil` reads back as Nil; printed `nil` as Q's treatment of
///   the nil token; printed `()` as Null; printed as false, as false is printed.
/// * `Bool` printed as tokens reads back as itself; `true` printed `t` as Q's
///   treatment of t; `false` printed `nil` as Q's treatment of nil.
/// * empty `Bytes` printed as an Emacs string `""` reads back as `String("")`.
pub fn fold(v: &Value, p: &P, q: &Q) -> Value {
    let nil_token = |q: &Q| match q.nil {
        QNil::Symbol => Value::symbol("nil"),
        QNil::EmptyList => Value::Null,
        QNil::Special => Value::Nil,
    };
    let fold_bool = |b: bool| -> Value {
        if !p.bool_symbol {
            Value::Bool(b)
        } else if b {
            if q.t_true {
                Value::Bool(true)
            } else {
                Value::symbol("t")
            }
        } else {
            nil_token(q)
        }
    };
    let f = |a: &Value| -> Value {
        match a {
            Value::Nil => match p.nil {
                PNil::Token => Value::Nil,
                PNil::Symbol => nil_token(q),
                PNil::EmptyList => Value::Null,
                PNil::False => fold_bool(false),
            },
            Value::Bool(b) => fold_bool(*b),
            Value::Bytes(b) if b.is_empty() && p.bytes == PBytes::Elisp && q.string == Syn::Elisp => {
                Value::string("")
            }
            other => other.clone(),
        }
    };
    // A Nil/false in *tail* position that folds to Null turns a dotted list
    // into a proper one; map_atoms + append handles that uniformly. A tail
    // folding to the symbol nil stays a dotted tail.
    map_atoms(v, &f)
}
