pub mod child;
pub mod io;
pub mod panics;
