//! Fault-injecting and schedule-controlling I/O doubles.

use crate::rng::Rng;
use std::cell::Cell;
use std::io::{self, Read, Write};
use std::rc::Rc;

pub const MARKER: &str = "vh-injected-fault";

#[derive(Clone, Copy, Debug, PartialEq)]
pub enum Chunking {
    One,
    Random,
    Whole,
}

/// Delivers `data` according to a chunking schedule, optionally returning
/// ErrorKind::Interrupted before reads.
pub struct ChunkReader<'a> {
    data: &'a [u8],
    pos: usize,
    chunking: Chunking,
    rng: Rng,
    interrupts: bool,
    pub reads: usize,
    pub interrupted: usize,
    pending_interrupt: bool,
}

impl<'a> ChunkReader<'a> {
    pub fn new(data: &'a [u8], chunking: Chunking, interrupts: bool, rng: Rng) -> Self {
        ChunkReader { data, pos: 0, chunking, rng, interrupts, reads: 0, interrupted: 0, pending_interrupt: false }
    }
}

impl<'a> Read for ChunkReader<'a> {
    fn read(&mut self, buf: &mut [u8]) -> io::Result<usize> {
        if self.interrupts {
            // at most one Interrupted in a row per successful read, with prob 1/3
            if !self.pending_interrupt && self.rng.chance(1, 3) {
                self.pending_interrupt = true;
                self.interrupted += 1;
                return Err(io::Error::new(io::ErrorKind::Interrupted, "vh interrupted"));
            }
            self.pending_interrupt = false;
        }
        self.reads += 1;
        if buf.is_empty() {
            return Ok(0);
        }
        let remaining = self.data.len() - self.pos;
        let want = match self.chunking {
            Chunking::One => 1,
            Chunking::Random => self.rng.range(1, 7),
            Chunking::Whole => remaining.max(1),
        };
        let n = want.min(remaining).min(buf.len());
        buf[..n].copy_from_slice(&self.data[self.pos..self.pos + n]);
        self.pos += n;
        Ok(n)
    }
}

/// Delivers exactly `data[..fail_at]`, then a hard error carrying MARKER,
/// forever (never EOF).
pub struct FaultReader<'a> {
    data: &'a [u8],
    pos: usize,
    fail_at: usize,
    kind: io::ErrorKind,
    after: AfterFault,
    pub errors_returned: Rc<Cell<usize>>,
}

/// What the reader does once it has reported its error.
#[derive(Clone, Copy, Debug, PartialEq)]
pub enum AfterFault {
    /// keeps failing (never EOF)
    Forever,
    /// the failure was transient: the remaining bytes are delivered, then EOF
    Resume,
    /// reports end of input from then on
    Eof,
}

/// Error kinds a failing reader may report (Interrupted is excluded: it means "retry").
pub const FAULT_KINDS: &[io::ErrorKind] = &[
    io::ErrorKind::ConnectionReset,
    io::ErrorKind::UnexpectedEof,
    io::ErrorKind::Other,
    io::ErrorKind::InvalidData,
    io::ErrorKind::WouldBlock,
    io::ErrorKind::TimedOut,
    io::ErrorKind::BrokenPipe,
    io::ErrorKind::NotFound,
];

impl<'a> FaultReader<'a> {
    pub fn new(data: &'a [u8], fail_at: usize) -> Self {
        FaultReader::with_kind(data, fail_at, io::ErrorKind::ConnectionReset)
    }
    pub fn with_kind(data: &'a [u8], fail_at: usize, kind: io::ErrorKind) -> Self {
        FaultReader { data, pos: 0, fail_at, kind, after: AfterFault::Forever, errors_returned: Rc::new(Cell::new(0)) }
    }
    pub fn then(mut self, after: AfterFault) -> Self {
        self.after = after;
        self
    }
}

impl<'a> Read for FaultReader<'a> {
    fn read(&mut self, buf: &mut [u8]) -> io::Result<usize> {
        if buf.is_empty() {
            return Ok(0);
        }
        if self.pos >= self.fail_at {
            let already = self.errors_returned.get();
            if already == 0 || self.after == AfterFault::Forever {
                self.errors_returned.set(already + 1);
                return Err(io::Error::new(self.kind, MARKER));
            }
            if self.after == AfterFault::Eof || self.pos >= self.data.len() {
                return Ok(0);
            }
        }
        if self.pos >= self.data.len() {
            return Ok(0);
        }
        // one byte per read so that the error position is exact
        buf[0] = self.data[self.pos];
        self.pos += 1;
        Ok(1)
    }
}

/// Delivers `data` one byte per read, but reports end of input (Ok(0)) once at
/// each of the given offsets before going on: a pipe / socket / growing file
/// whose writer was slower than the reader.
pub struct PausingReader<'a> {
    data: &'a [u8],
    pos: usize,
    pauses: Vec<usize>,
    next_pause: usize,
    pub pauses_reported: usize,
}

impl<'a> PausingReader<'a> {
    pub fn new(data: &'a [u8], mut pauses: Vec<usize>) -> Self {
        pauses.sort();
        pauses.dedup();
        PausingReader { data, pos: 0, pauses, next_pause: 0, pauses_reported: 0 }
    }
}

impl<'a> Read for PausingReader<'a> {
    fn read(&mut self, buf: &mut [u8]) -> io::Result<usize> {
        if buf.is_empty() {
            return Ok(0);
        }
        if self.next_pause < self.pauses.len() && self.pauses[self.next_pause] <= self.pos {
            self.next_pause += 1;
            self.pauses_reported += 1;
            return Ok(0);
        }
        if self.pos >= self.data.len() {
            return Ok(0);
        }
        buf[0] = self.data[self.pos];
        self.pos += 1;
        Ok(1)
    }
}

/// Counts how many byte requests (incl. the EOF probe) a consumer makes when
/// fed one byte per read.
pub struct CountingReader<'a> {
    data: &'a [u8],
    pos: usize,
    pub requests: Rc<Cell<usize>>,
}

impl<'a> CountingReader<'a> {
    pub fn new(data: &'a [u8]) -> Self {
        CountingReader { data, pos: 0, requests: Rc::new(Cell::new(0)) }
    }
}

impl<'a> Read for CountingReader<'a> {
    fn read(&mut self, buf: &mut [u8]) -> io::Result<usize> {
        if buf.is_empty() {
            return Ok(0);
        }
        self.requests.set(self.requests.get() + 1);
        if self.pos >= self.data.len() {
            return Ok(0);
        }
        buf[0] = self.data[self.pos];
        self.pos += 1;
        Ok(1)
    }
}

// ------------------------------------------------------------------ writers

#[derive(Clone, Copy, Debug, PartialEq)]
pub enum WriteSchedule {
    /// every write accepts at most k bytes
    Max(usize),
    /// random 1..=7 per call
    Random,
}

/// Accepts only part of each buffer.
pub struct ShortWriter {
    pub out: Vec<u8>,
    schedule: WriteSchedule,
    rng: Rng,
    pub calls: usize,
    pub short_calls: usize,
}

impl ShortWriter {
    pub fn new(schedule: WriteSchedule, rng: Rng) -> Self {
        ShortWriter { out: Vec::new(), schedule, rng, calls: 0, short_calls: 0 }
    }
}

impl Write for ShortWriter {
    fn write(&mut self, buf: &[u8]) -> io::Result<usize> {
        self.calls += 1;
        if buf.is_empty() {
            return Ok(0);
        }
        let k = match self.schedule {
            WriteSchedule::Max(k) => k,
            WriteSchedule::Random => self.rng.range(1, 7),
        };
        let n = k.min(buf.len());
        if n < buf.len() {
            self.short_calls += 1;
        }
        self.out.extend_from_slice(&buf[..n]);
        Ok(n)
    }
    fn flush(&mut self) -> io::Result<()> {
        Ok(())
    }
}

/// Accepts everything up to byte offset `fail_at` (splitting the buffer that
/// crosses it), then returns a hard error forever.
pub struct FaultWriter {
    pub out: Vec<u8>,
    fail_at: usize,
    pub errors_returned: usize,
}

impl FaultWriter {
    pub fn new(fail_at: usize) -> Self {
        FaultWriter { out: Vec::new(), fail_at, errors_returned: 0 }
    }
}

impl Write for FaultWriter {
    fn write(&mut self, buf: &[u8]) -> io::Result<usize> {
        if buf.is_empty() {
            return Ok(0);
        }
        let room = self.fail_at - self.out.len();
        if room == 0 {
            self.errors_returned += 1;
            return Err(io::Error::new(io::ErrorKind::BrokenPipe, MARKER));
        }
        let n = room.min(buf.len());
        self.out.extend_from_slice(&buf[..n]);
        Ok(n)
    }
    fn flush(&mut self) -> io::Result<()> {
        Ok(())
    }
}

/// Accepts everything up to offset `after`, then returns Ok(0) forever
/// ("stops accepting bytes").
pub struct ZeroWriter {
    pub out: Vec<u8>,
    after: usize,
    pub zero_returns: usize,
}

impl ZeroWriter {
    pub fn new(after: usize) -> Self {
        ZeroWriter { out: Vec::new(), after, zero_returns: 0 }
    }
}

impl Write for ZeroWriter {
    fn write(&mut self, buf: &[u8]) -> io::Result<usize> {
        if buf.is_empty() {
            return Ok(0);
        }
        let room = self.after - self.out.len();
        if room == 0 {
            self.zero_returns += 1;
            return Ok(0);
        }
        let n = room.min(buf.len());
        self.out.extend_from_slice(&buf[..n]);
        Ok(n)
    }
    fn flush(&mut self) -> io::Result<()> {
        Ok(())
    }
}

/// Returns Interrupted before every other write, then accepts a random part.
pub struct InterruptingWriter {
    pub out: Vec<u8>,
    rng: Rng,
    toggle: bool,
    pub interrupted: usize,
}

impl InterruptingWriter {
    pub fn new(rng: Rng) -> Self {
        InterruptingWriter { out: Vec::new(), rng, toggle: false, interrupted: 0 }
    }
}

impl Write for InterruptingWriter {
    fn write(&mut self, buf: &[u8]) -> io::Result<usize> {
        if buf.is_empty() {
            return Ok(0);
        }
        self.toggle = !self.toggle;
        if self.toggle {
            self.interrupted += 1;
            return Err(io::Error::new(io::ErrorKind::Interrupted, "vh interrupted"));
        }
        let n = self.rng.range(1, 5).min(buf.len());
        self.out.extend_from_slice(&buf[..n]);
        Ok(n)
    }
    fn flush(&mut self) -> io::Result<()> {
        Ok(())
    }
}

/// Accepts everything up to byte offset `fail_at` (splitting the buffer that
/// crosses it, at most `max` bytes per call), returns one transient error
/// (WouldBlock) there, and accepts everything afterwards.
pub struct FailOnceWriter {
    pub out: Vec<u8>,
    fail_at: usize,
    max: usize,
    pub failed: bool,
}

impl FailOnceWriter {
    pub fn new(fail_at: usize, max: usize) -> Self {
        FailOnceWriter { out: Vec::new(), fail_at, max: max.max(1), failed: false }
    }
}

impl Write for FailOnceWriter {
    fn write(&mut self, buf: &[u8]) -> io::Result<usize> {
        if buf.is_empty() {
            return Ok(0);
        }
        let mut n = buf.len().min(self.max);
        if !self.failed {
            let room = self.fail_at - self.out.len();
            if room == 0 {
                self.failed = true;
                return Err(io::Error::new(io::ErrorKind::WouldBlock, MARKER));
            }
            n = n.min(room);
        }
        self.out.extend_from_slice(&buf[..n]);
        Ok(n)
    }
    fn flush(&mut self) -> io::Result<()> {
        Ok(())
    }
}

/// fmt::Write sink that fails once `limit` bytes have been accepted.
pub struct FailingFmt {
    pub out: String,
    pub limit: usize,
    pub failed: bool,
}

impl std::fmt::Write for FailingFmt {
    fn write_str(&mut self, s: &str) -> std::fmt::Result {
        if self.out.len() + s.len() > self.limit {
            // accept the part that fits on a char boundary
            let mut room = self.limit - self.out.len();
            while room > 0 && !s.is_char_boundary(room) {
                room -= 1;
            }
            self.out.push_str(&s[..room]);
            self.failed = true;
            return Err(std::fmt::Error);
        }
        self.out.push_str(s);
        Ok(())
    }
}
