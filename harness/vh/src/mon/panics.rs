//! Panic observation: a process-wide hook records (message, file, line) of the
//! most recent panic on this thread instead of printing it; `guarded` runs a
//! closure under catch_unwind and classifies the panic as coming from the
//! library under test (a fact about lexpr) or from the harness (a harness bug,
//! which must never be reported as a violation).

use std::cell::RefCell;
use std::panic::{self, AssertUnwindSafe};
use std::sync::Once;

#[derive(Clone, Debug)]
pub struct PanicInfo {
    pub message: String,
    pub file: String,
    pub line: u32,
    /// For panics raised inside core/std/alloc (e.g. `i32::abs` overflow, which is not
    /// `#[track_caller]`): the crate of the innermost decisive stack frame,
    /// "library", "harness" or "" when no backtrace was needed / nothing decisive found.
    pub origin: &'static str,
    /// innermost library frame, for signatures
    pub frame: String,
}

impl PanicInfo {
    /// Did the panic originate in the code under test (or one of its hooks)?
    pub fn in_library(&self) -> bool {
        self.origin == "library"
            || self.message.starts_with("lexpr_verif:")
            || self.file.contains("/lexpr/src/")
            || self.file.contains("/serde-lexpr/src/")
            || self.file.contains("/lexpr-macros/src/")
            || self.file.starts_with("/repo/")
    }
    pub fn short(&self) -> String {
        let m: String = self.message.chars().take(120).collect();
        format!("{} ({}:{})", m, self.file, self.line)
    }
    /// Signature fragment: message with digits squeezed, plus file name.
    pub fn sig(&self) -> String {
        let mut m = String::new();
        let mut last_digit = false;
        for c in self.message.chars().take(80) {
            if c.is_ascii_digit() {
                if !last_digit {
                    m.push('N');
                }
                last_digit = true;
            } else {
                m.push(c);
                last_digit = false;
            }
        }
        let f = self.file.rsplit('/').next().unwrap_or("");
        if self.origin == "library" && !self.frame.is_empty() {
            return format!("{}@{}", m, self.frame);
        }
        format!("{}@{}", m, f)
    }
}

/// Walk the frames of a rendered backtrace from the innermost one and return the
/// crate of the first frame that belongs either to the code under test or to the
/// harness (frames of core/std/alloc and of third-party crates are skipped).
pub fn attribute(bt: &str) -> (&'static str, String) {
    for line in bt.lines() {
        let t = line.trim_start();
        let sym = match t.split_once(": ") {
            Some((idx, rest)) if !idx.is_empty() && idx.bytes().all(|b| b.is_ascii_digit()) => rest,
            _ => continue,
        };
        // leading type of `<T as Trait>::f`, with reference / pointer sigils removed
        let mut head = sym.trim_start_matches('<');
        loop {
            let before = head;
            for p in ["&mut ", "&", "*mut ", "*const ", "dyn ", "mut "] {
                head = head.trim_start_matches(p);
            }
            if head == before {
                break;
            }
        }
        if head.starts_with("lexpr::") || head.starts_with("serde_lexpr::") || head.starts_with("lexpr_macros::") {
            let short: String = sym.chars().filter(|c| !c.is_whitespace()).take(60).collect();
            return ("library", short);
        }
        if head.starts_with("vh::mon::panics::") {
            // the hook itself (innermost) and `guarded`
            continue;
        }
        if head.starts_with("vh::") || head.starts_with("vcheck::") || head.starts_with("vmiri::") {
            return ("harness", String::new());
        }
    }
    ("", String::new())
}

thread_local! {
    static LAST: RefCell<Option<PanicInfo>> = RefCell::new(None);
}

static INSTALL: Once = Once::new();

pub fn install_hook() {
    INSTALL.call_once(|| {
        panic::set_hook(Box::new(|info| {
            let message = if let Some(s) = info.payload().downcast_ref::<&str>() {
                s.to_string()
            } else if let Some(s) = info.payload().downcast_ref::<String>() {
                s.clone()
            } else {
                "<non-string panic payload>".to_string()
            };
            let (file, line) = info
                .location()
                .map(|l| (l.file().to_string(), l.line()))
                .unwrap_or_else(|| ("<unknown>".to_string(), 0));
            let by_location = file.contains("/lexpr/src/") || file.contains("/serde-lexpr/src/") || file.contains("/lexpr-macros/src/") || file.starts_with("/repo/") || file.starts_with("vh/src/") || file.contains("/verif/harness/") || message.starts_with("lexpr_verif:");
            let (origin, frame) = if by_location {
                ("", String::new())
            } else {
                let bt = std::backtrace::Backtrace::force_capture().to_string();
                if std::env::var_os("VH_DEBUG_BACKTRACE").is_some() {
                    eprintln!("--- panic backtrace ({})\n{}", message, bt);
                }
                attribute(&bt)
            };
            LAST.with(|l| *l.borrow_mut() = Some(PanicInfo { message, file, line, origin, frame }));
        }));
    });
}

/// Run `f`; Ok(result) or Err(info about the panic).
pub fn guarded<T>(f: impl FnOnce() -> T) -> Result<T, PanicInfo> {
    install_hook();
    LAST.with(|l| *l.borrow_mut() = None);
    match panic::catch_unwind(AssertUnwindSafe(f)) {
        Ok(v) => Ok(v),
        Err(_) => Err(LAST.with(|l| l.borrow_mut().take()).unwrap_or(PanicInfo {
            message: "<panic without hook record>".into(),
            file: "<unknown>".into(),
            line: 0,
            origin: "",
            frame: String::new(),
        })),
    }
}
