//! Panic observation: a process-wide hook records (message, file, line) of the
//! most recent panic on this thread instead of printing it; `guarded` runs a
//! closure under catch_unwind and classifies the panic as coming from the
//! library under test (a fact about lexpr) or from the harness (a harness bug,
//! which must never be reported as a violation).

use std::cell::RefCell;
use std::panic::{self, AssertUnwindSafe};
use std::sync::Once;

#[derive(Clone, Debug)]
pub struct PanicInfo {
    pub message: String,
    pub file: String,
    pub line: u32,
}

impl PanicInfo {
    /// Did the panic originate in the code under test (or one of its hooks)?
    pub fn in_library(&self) -> bool {
        self.message.starts_with("lexpr_verif:")
            || self.file.contains("/lexpr/src/")
            || self.file.contains("/serde-lexpr/src/")
            || self.file.contains("/lexpr-macros/src/")
            || self.file.starts_with("/repo/")
    }
    pub fn short(&self) -> String {
        let m: String = self.message.chars().take(120).collect();
        format!("{} ({}:{})", m, self.file, self.line)
    }
    /// Signature fragment: message with digits squeezed, plus file name.
    pub fn sig(&self) -> String {
        let mut m = String::new();
        let mut last_digit = false;
        for c in self.message.chars().take(80) {
            if c.is_ascii_digit() {
                if !last_digit {
                    m.push('N');
                }
                last_digit = true;
            } else {
                m.push(c);
                last_digit = false;
            }
        }
        let f = self.file.rsplit('/').next().unwrap_or("");
        format!("{}@{}", m, f)
    }
}

thread_local! {
    static LAST: RefCell<Option<PanicInfo>> = RefCell::new(None);
}

static INSTALL: Once = Once::new();

pub fn install_hook() {
    INSTALL.call_once(|| {
        panic::set_hook(Box::new(|info| {
            let message = if let Some(s) = info.payload().downcast_ref::<&str>() {
                s.to_string()
            } else if let Some(s) = info.payload().downcast_ref::<String>() {
                s.clone()
            } else {
                "<non-string panic payload>".to_string()
            };
            let (file, line) = info
                .location()
                .map(|l| (l.file().to_string(), l.line()))
                .unwrap_or_else(|| ("<unknown>".to_string(), 0));
            LAST.with(|l| *l.borrow_mut() = Some(PanicInfo { message, file, line }));
        }));
    });
}

/// Run `f`; Ok(result) or Err(info about the panic).
pub fn guarded<T>(f: impl FnOnce() -> T) -> Result<T, PanicInfo> {
    install_hook();
    LAST.with(|l| *l.borrow_mut() = None);
    match panic::catch_unwind(AssertUnwindSafe(f)) {
        Ok(v) => Ok(v),
        Err(_) => Err(LAST.with(|l| l.borrow_mut().take()).unwrap_or(PanicInfo {
            message: "<panic without hook record>".into(),
            file: "<unknown>".into(),
            line: 0,
        })),
    }
}
