//! Child-process runner: the observation for crash-type properties is the
//! exit status of a process, seen from outside.

use std::io::Read;
use std::process::{Command, Stdio};
use std::time::{Duration, Instant};

#[derive(Debug, Clone)]
pub enum Exit {
    Code(i32),
    Signal(i32),
    /// watchdog fired: inconclusive, never a violation
    Timeout,
    SpawnError(String),
}

#[derive(Debug, Clone)]
pub struct ChildResult {
    pub exit: Exit,
    pub stdout: String,
    pub stderr_tail: String,
    pub wall_ms: u128,
}

impl ChildResult {
    pub fn stack_overflow(&self) -> bool {
        match self.exit {
            Exit::Signal(11) => true, // SIGSEGV (main-thread guard page)
            Exit::Signal(6) => self.stderr_tail.contains("overflowed its stack"),
            _ => false,
        }
    }
}

pub fn run(bin: &str, args: &[String], timeout: Duration) -> ChildResult {
    run_in(bin, args, None, &[], timeout)
}

pub fn run_in(bin: &str, args: &[String], cwd: Option<&str>, envs: &[(&str, String)], timeout: Duration) -> ChildResult {
    let start = Instant::now();
    let mut cmd = Command::new(bin);
    if let Some(d) = cwd {
        cmd.current_dir(d);
    }
    for (k, v) in envs {
        cmd.env(k, v);
    }
    let mut child = match cmd
        .args(args)
        .stdin(Stdio::null())
        .stdout(Stdio::piped())
        .stderr(Stdio::piped())
        .spawn()
    {
        Ok(c) => c,
        Err(e) => {
            return ChildResult {
                exit: Exit::SpawnError(e.to_string()),
                stdout: String::new(),
                stderr_tail: String::new(),
                wall_ms: 0,
            }
        }
    };
    let mut out = child.stdout.take().unwrap();
    let mut err = child.stderr.take().unwrap();
    let t_out = std::thread::spawn(move || {
        let mut s = Vec::new();
        let _ = out.read_to_end(&mut s);
        String::from_utf8_lossy(&s).to_string()
    });
    let t_err = std::thread::spawn(move || {
        let mut s = Vec::new();
        let _ = err.read_to_end(&mut s);
        let s = String::from_utf8_lossy(&s).to_string();
        let tail: Vec<&str> = s.lines().rev().take(40).collect();
        tail.into_iter().rev().collect::<Vec<_>>().join("\n")
    });
    let exit;
    loop {
        match child.try_wait() {
            Ok(Some(st)) => {
                use std::os::unix::process::ExitStatusExt;
                exit = if let Some(c) = st.code() {
                    Exit::Code(c)
                } else {
                    Exit::Signal(st.signal().unwrap_or(-1))
                };
                break;
            }
            Ok(None) => {
                if start.elapsed() > timeout {
                    let _ = child.kill();
                    let _ = child.wait();
                    exit = Exit::Timeout;
                    break;
                }
                std::thread::sleep(Duration::from_millis(5));
            }
            Err(e) => {
                exit = Exit::SpawnError(e.to_string());
                break;
            }
        }
    }
    let stdout = t_out.join().unwrap_or_default();
    let stderr_tail = t_err.join().unwrap_or_default();
    ChildResult { exit, stdout, stderr_tail, wall_ms: start.elapsed().as_millis() }
}
