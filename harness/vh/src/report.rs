//! Per-run report: what the monitors observed, violations, verdict.

use serde_json::{json, Map, Value as J};
use std::collections::{BTreeMap, HashSet};

pub const DISTINCT_CAP: usize = 4_000_000;
pub const MAX_SAMPLES: usize = 12;
pub const MAX_VIOLATIONS_KEPT: usize = 200;

#[derive(Clone, Debug)]
pub struct Violation {
    /// name of the sub-check that fired, e.g. "roundtrip"
    pub check: String,
    /// narrow signature used to match known findings
    pub signature: String,
    /// one-line human description (input, expected, observed)
    pub detail: String,
    /// everything needed to re-execute the case
    pub replay: J,
}

#[derive(Default)]
pub struct Report {
    pub evaluations: u64,
    pub distinct: HashSet<u64>,
    pub distinct_overflow: bool,
    pub samples: Vec<J>,
    pub counters: BTreeMap<String, u64>,
    pub maxima: BTreeMap<String, u64>,
    pub violations: Vec<Violation>,
    pub violations_total: u64,
    pub violation_signatures: BTreeMap<String, u64>,
    pub inconclusive: Vec<String>,
    pub notes: Vec<String>,
    pub exhaustive: Option<bool>,
}

impl Report {
    pub fn new() -> Report {
        Report::default()
    }

    /// One oracle decision made.
    pub fn eval(&mut self) {
        self.evaluations += 1;
    }

    pub fn evals(&mut self, n: u64) {
        self.evaluations += n;
    }

    /// Record a distinct non-trivial case by hash.
    pub fn distinct(&mut self, h: u64) {
        if self.distinct.len() < DISTINCT_CAP {
            self.distinct.insert(h);
        } else {
            self.distinct_overflow = true;
        }
    }

    pub fn count(&mut self, key: &str) {
        *self.counters.entry(key.to_string()).or_insert(0) += 1;
    }

    pub fn count_n(&mut self, key: &str, n: u64) {
        *self.counters.entry(key.to_string()).or_insert(0) += n;
    }

    pub fn max(&mut self, key: &str, v: u64) {
        let e = self.maxima.entry(key.to_string()).or_insert(0);
        if v > *e {
            *e = v;
        }
    }

    pub fn sample(&mut self, j: J) {
        if self.samples.len() < MAX_SAMPLES {
            self.samples.push(j);
        }
    }

    pub fn want_sample(&self) -> bool {
        self.samples.len() < MAX_SAMPLES
    }

    pub fn violation(&mut self, check: &str, signature: String, detail: String, replay: J) {
        self.violations_total += 1;
        let n = self.violation_signatures.entry(signature.clone()).or_insert(0);
        *n += 1;
        // keep only the first few examples per signature
        if *n <= 3 && self.violations.len() < MAX_VIOLATIONS_KEPT {
            self.violations.push(Violation { check: check.to_string(), signature, detail, replay });
        }
    }

    pub fn inconclusive(&mut self, why: String) {
        if !self.inconclusive.contains(&why) {
            self.inconclusive.push(why);
        }
    }

    pub fn note(&mut self, s: String) {
        if self.notes.len() < 50 {
            self.notes.push(s);
        }
    }

    pub fn merge(&mut self, other: Report) {
        self.evaluations += other.evaluations;
        for h in other.distinct {
            self.distinct(h);
        }
        self.distinct_overflow |= other.distinct_overflow;
        for s in other.samples {
            self.sample(s);
        }
        for (k, v) in other.counters {
            *self.counters.entry(k).or_insert(0) += v;
        }
        for (k, v) in other.maxima {
            self.max(&k, v);
        }
        self.violations_total += other.violations_total;
        for (k, v) in other.violation_signatures {
            *self.violation_signatures.entry(k).or_insert(0) += v;
        }
        for v in other.violations {
            let kept = self.violations.iter().filter(|x| x.signature == v.signature).count();
            if kept < 3 && self.violations.len() < MAX_VIOLATIONS_KEPT {
                self.violations.push(v);
            }
        }
        for s in other.inconclusive {
            self.inconclusive(s);
        }
        for s in other.notes {
            self.note(s);
        }
        if let Some(e) = other.exhaustive {
            self.exhaustive = Some(self.exhaustive.unwrap_or(true) && e);
        }
    }

    /// Serialise for transport between a helper process and the main one.
    pub fn to_transport(&self) -> J {
        json!({
            "evaluations": self.evaluations,
            "distinct": self.distinct.iter().take(200_000).collect::<Vec<_>>(),
            "distinct_len": self.distinct.len(),
            "samples": self.samples,
            "counters": self.counters,
            "maxima": self.maxima,
            "violations": self.violations.iter().map(|v| json!({
                "check": v.check, "signature": v.signature, "detail": v.detail, "replay": v.replay
            })).collect::<Vec<_>>(),
            "violations_total": self.violations_total,
            "violation_signatures": self.violation_signatures,
            "inconclusive": self.inconclusive,
            "notes": self.notes,
        })
    }

    pub fn from_transport(j: &J, prefix: &str) -> Report {
        let mut r = Report::new();
        r.evaluations = j["evaluations"].as_u64().unwrap_or(0);
        if let Some(a) = j["distinct"].as_array() {
            for h in a {
                if let Some(h) = h.as_u64() {
                    // re-key so the same case in another build counts separately
                    r.distinct(crate::rng::hash2(h, crate::rng::hash_str(prefix)));
                }
            }
        }
        if let Some(a) = j["samples"].as_array() {
            for s in a {
                r.sample(json!({"build": prefix, "case": s}));
            }
        }
        if let Some(m) = j["counters"].as_object() {
            for (k, v) in m {
                r.count_n(&format!("{}:{}", prefix, k), v.as_u64().unwrap_or(0));
            }
        }
        if let Some(m) = j["maxima"].as_object() {
            for (k, v) in m {
                r.max(&format!("{}:{}", prefix, k), v.as_u64().unwrap_or(0));
            }
        }
        r.violations_total = j["violations_total"].as_u64().unwrap_or(0);
        if let Some(m) = j["violation_signatures"].as_object() {
            for (k, v) in m {
                r.violation_signatures.insert(k.clone(), v.as_u64().unwrap_or(0));
            }
        }
        if let Some(a) = j["violations"].as_array() {
            for v in a {
                let mut replay = v["replay"].clone();
                if let Some(o) = replay.as_object_mut() {
                    o.insert("build".into(), J::String(prefix.to_string()));
                }
                r.violations.push(Violation {
                    check: v["check"].as_str().unwrap_or("").to_string(),
                    signature: v["signature"].as_str().unwrap_or("").to_string(),
                    detail: format!("[{}] {}", prefix, v["detail"].as_str().unwrap_or("")),
                    replay,
                });
            }
        }
        if let Some(a) = j["inconclusive"].as_array() {
            for s in a {
                r.inconclusive(format!("[{}] {}", prefix, s.as_str().unwrap_or("")));
            }
        }
        if let Some(a) = j["notes"].as_array() {
            for s in a {
                r.note(format!("[{}] {}", prefix, s.as_str().unwrap_or("")));
            }
        }
        r
    }

    pub fn coverage_json(&self, rule: &str) -> J {
        let mut m = Map::new();
        m.insert("evaluations".into(), json!(self.evaluations));
        m.insert("distinct_nontrivial".into(), json!(self.distinct.len()));
        let rule = if self.distinct_overflow {
            format!(
                "{} [distinct set capped at {} entries: the count is a lower bound]",
                rule, DISTINCT_CAP
            )
        } else {
            rule.to_string()
        };
        m.insert("rule".into(), json!(rule));
        m.insert("samples".into(), json!(self.samples));
        if let Some(e) = self.exhaustive {
            m.insert("exhaustive".into(), json!(e));
        }
        m.insert("observed".into(), json!(self.counters));
        m.insert("maxima".into(), json!(self.maxima));
        if !self.notes.is_empty() {
            m.insert("notes".into(), json!(self.notes));
        }
        if !self.violation_signatures.is_empty() {
            m.insert("violation_signatures".into(), json!(self.violation_signatures));
        }
        if !self.inconclusive.is_empty() {
            m.insert("inconclusive".into(), json!(self.inconclusive));
        }
        J::Object(m)
    }
}

pub fn hex(bytes: &[u8]) -> String {
    let mut s = String::with_capacity(bytes.len() * 2);
    for b in bytes {
        s.push_str(&format!("{:02x}", b));
    }
    s
}

pub fn unhex(s: &str) -> Vec<u8> {
    let b = s.as_bytes();
    let mut out = Vec::with_capacity(b.len() / 2);
    let mut i = 0;
    while i + 1 < b.len() {
        let h = (b[i] as char).to_digit(16).unwrap_or(0) as u8;
        let l = (b[i + 1] as char).to_digit(16).unwrap_or(0) as u8;
        out.push(h * 16 + l);
        i += 2;
    }
    out
}

/// Printable rendering of input bytes for detail lines and samples.
pub fn show(bytes: &[u8]) -> String {
    let mut s = String::new();
    for &b in bytes.iter().take(200) {
        match b {
            b'\\' => s.push_str("\\\\"),
            0x20..=0x7e => s.push(b as char),
            b'\n' => s.push_str("\\n"),
            b'\t' => s.push_str("\\t"),
            b'\r' => s.push_str("\\r"),
            _ => s.push_str(&format!("\\x{:02x}", b)),
        }
    }
    if bytes.len() > 200 {
        s.push_str(&format!("...(+{} bytes)", bytes.len() - 200));
    }
    s
}

pub fn show_str(s: &str) -> String {
    let mut out = String::new();
    for c in s.chars().take(200) {
        match c {
            '\\' => out.push_str("\\\\"),
            ' '..='~' => out.push(c),
            '\n' => out.push_str("\\n"),
            '\t' => out.push_str("\\t"),
            '\r' => out.push_str("\\r"),
            c => out.push_str(&format!("\\u{{{:x}}}", c as u32)),
        }
    }
    if s.chars().count() > 200 {
        out.push_str("...");
    }
    out
}
