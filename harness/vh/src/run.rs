//! Generic driver: case sets, deterministic parallel execution, replay.

use crate::mon::panics;
use crate::report::Report;
use crate::rng::Rng;
use serde_json::{json, Value as J};
use std::sync::atomic::{AtomicU64, Ordering};
use std::sync::Mutex;

#[derive(Clone, Debug)]
pub struct Ctx {
    pub prop: String,
    pub seed: u64,
    pub thorough: bool,
    pub threads: usize,
    /// true in the build without fast-float-parsing (and without serde-lexpr)
    pub nofast: bool,
    /// restrict to one case set (used by helper invocations and replays)
    pub only_tag: Option<String>,
}

impl Ctx {
    pub fn tier(&self) -> &'static str {
        if self.thorough {
            "thorough"
        } else {
            "quick"
        }
    }
    /// pick quick or thorough size
    pub fn size(&self, quick: u64, thorough: u64) -> u64 {
        if self.thorough {
            thorough
        } else {
            quick
        }
    }
}

pub const WORKER_STACK: usize = 512 << 20;

pub type CaseFn = Box<dyn Fn(&mut Report, &mut Rng, u64) + Sync + Send>;

pub struct CaseSet {
    pub tag: &'static str,
    pub n: u64,
    /// run cases sequentially on one thread (for sets that spawn processes
    /// or are themselves parallel)
    pub serial: bool,
    pub run: CaseFn,
}

impl CaseSet {
    pub fn new(tag: &'static str, n: u64, run: CaseFn) -> CaseSet {
        CaseSet { tag, n, serial: false, run }
    }
    pub fn serial(tag: &'static str, n: u64, run: CaseFn) -> CaseSet {
        CaseSet { tag, n, serial: true, run }
    }
}

/// Standard replay header for a violation found in case `case` of set `tag`.
pub fn replay_header(ctx: &Ctx, tag: &str, case: u64) -> J {
    json!({
        "property": ctx.prop, "tag": tag, "case": case, "seed": ctx.seed,
        "tier": ctx.tier(), "nofast_build": ctx.nofast,
    })
}

fn run_one(ctx: &Ctx, set: &CaseSet, case: u64, rep: &mut Report) {
    let mut rng = Rng::new(ctx.seed, set.tag, 0, case);
    let before = rep.violations_total;
    let res = panics::guarded(|| (set.run)(rep, &mut rng, case));
    if let Err(p) = res {
        if p.in_library() {
            rep.violation(
                "panic",
                format!("{}:{}:panic:{}", ctx.prop, set.tag, p.sig()),
                format!("library panic in case {} of {}: {}", case, set.tag, p.short()),
                json!({"header": replay_header(ctx, set.tag, case), "panic": p.short()}),
            );
        } else {
            rep.inconclusive(format!("harness panic in {} case {}: {}", set.tag, case, p.short()));
        }
    }
    // make sure every violation carries a replay header
    if rep.violations_total > before {
        let hdr = replay_header(ctx, set.tag, case);
        for v in rep.violations.iter_mut() {
            if v.replay.get("header").is_none() {
                if let Some(o) = v.replay.as_object_mut() {
                    o.insert("header".into(), hdr.clone());
                } else {
                    v.replay = json!({"header": hdr.clone(), "data": v.replay.clone()});
                }
            }
        }
    }
}

pub fn run_sets(ctx: &Ctx, sets: &[CaseSet]) -> Report {
    panics::install_hook();
    let mut total = Report::new();
    for set in sets {
        if let Some(t) = &ctx.only_tag {
            if t != set.tag {
                continue;
            }
        }
        let start = std::time::Instant::now();
        let rep = if set.serial || ctx.threads <= 1 || set.n < 4 {
            // harness code (Debug rendering of long values, model walks) may recurse
            // deeply: give every worker a generous stack
            std::thread::scope(|s| {
                std::thread::Builder::new()
                    .stack_size(WORKER_STACK)
                    .spawn_scoped(s, || {
                        let mut rep = Report::new();
                        for case in 0..set.n {
                            run_one(ctx, set, case, &mut rep);
                        }
                        rep
                    })
                    .expect("spawn worker")
                    .join()
                    .unwrap_or_else(|_| {
                        let mut r = Report::new();
                        r.inconclusive(format!("worker thread for {} died", set.tag));
                        r
                    })
            })
        } else {
            let next = AtomicU64::new(0);
            let merged = Mutex::new(Report::new());
            // dynamic chunked distribution; results are a pure function of the
            // case index, so the merged report does not depend on scheduling
            // (up to the order of kept samples, which is normalised below)
            let chunk = (set.n / (ctx.threads as u64 * 8)).clamp(1, 4096);
            std::thread::scope(|s| {
                for _ in 0..ctx.threads {
                    let _ = std::thread::Builder::new().stack_size(WORKER_STACK).spawn_scoped(s, || {
                        let mut rep = Report::new();
                        loop {
                            let lo = next.fetch_add(chunk, Ordering::Relaxed);
                            if lo >= set.n {
                                break;
                            }
                            let hi = (lo + chunk).min(set.n);
                            for case in lo..hi {
                                run_one(ctx, set, case, &mut rep);
                            }
                        }
                        merged.lock().unwrap().merge(rep);
                    });
                }
            });
            merged.into_inner().unwrap()
        };
        let mut rep = rep;
        rep.count_n(&format!("cases:{}", set.tag), set.n);
        rep.max(&format!("wall_ms:{}", set.tag), start.elapsed().as_millis() as u64);
        total.merge(rep);
    }
    // deterministic order of kept violations
    total.violations.sort_by(|a, b| a.signature.cmp(&b.signature).then(a.detail.cmp(&b.detail)));
    total
}

/// Re-execute exactly one case.
pub fn replay_case(ctx: &Ctx, sets: &[CaseSet], tag: &str, case: u64) -> Option<Report> {
    panics::install_hook();
    let set = sets.iter().find(|s| s.tag == tag)?;
    let mut rep = Report::new();
    run_one(ctx, set, case, &mut rep);
    Some(rep)
}
