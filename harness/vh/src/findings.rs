//! known_findings.json: committed, never written at run time.

use serde_json::Value as J;

#[derive(Clone, Debug)]
pub struct Finding {
    pub property: String,
    pub signature: String,
    pub status: String, // "known" | "fixed"
    pub description: String,
}

pub fn load(path: &str) -> Vec<Finding> {
    let text = match std::fs::read_to_string(path) {
        Ok(t) => t,
        Err(_) => return Vec::new(),
    };
    let j: J = match serde_json::from_str(&text) {
        Ok(j) => j,
        Err(e) => {
            eprintln!("warning: cannot parse {}: {}", path, e);
            return Vec::new();
        }
    };
    let mut out = Vec::new();
    if let Some(a) = j["findings"].as_array() {
        for f in a {
            out.push(Finding {
                property: f["property"].as_str().unwrap_or("").to_string(),
                signature: f["signature"].as_str().unwrap_or("").to_string(),
                status: f["status"].as_str().unwrap_or("").to_string(),
                description: f["description"].as_str().unwrap_or("").to_string(),
            });
        }
    }
    out
}

/// Only `known` entries suppress; `fixed` entries suppress nothing.
pub fn is_known(findings: &[Finding], property: &str, signature: &str) -> bool {
    findings
        .iter()
        .any(|f| f.status == "known" && f.property == property && f.signature == signature)
}
