//! Access to the observation hooks of /repo (present only under
//! `--cfg lexpr_verif`); no-op shims otherwise, so that the hook-free
//! release/dev builds used by the crash monitors still compile.

#[cfg(lexpr_verif)]
pub use lexpr::verif::{depth_current, depth_max, fuel_used, reset_depth, set_fuel, utf8_checks};

#[cfg(lexpr_verif)]
pub fn budget<'de, R: lexpr::parse::Read<'de>>(p: &lexpr::Parser<R>) -> u8 {
    p.verif_remaining_depth()
}

#[cfg(lexpr_verif)]
pub const ENABLED: bool = true;

#[cfg(not(lexpr_verif))]
mod shim {
    pub fn depth_current() -> u32 {
        0
    }
    pub fn depth_max() -> u32 {
        0
    }
    pub fn fuel_used() -> u64 {
        0
    }
    pub fn reset_depth() {}
    pub fn set_fuel(_: u64) {}
    pub fn utf8_checks() -> u64 {
        0
    }
    pub fn budget<'de, R: lexpr::parse::Read<'de>>(_p: &lexpr::Parser<R>) -> u8 {
        128
    }
    pub const ENABLED: bool = false;
}
#[cfg(not(lexpr_verif))]
pub use shim::*;
