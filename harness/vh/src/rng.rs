//! Deterministic PRNG (SplitMix64). Every stream is keyed by
//! (VERIF_SEED, property tag, shard, case index), so results do not depend on
//! thread scheduling.

#[derive(Clone, Debug)]
pub struct Rng(u64);

fn mix(mut z: u64) -> u64 {
    z = (z ^ (z >> 30)).wrapping_mul(0xBF58476D1CE4E5B9);
    z = (z ^ (z >> 27)).wrapping_mul(0x94D049BB133111EB);
    z ^ (z >> 31)
}

pub fn hash_bytes(bytes: &[u8]) -> u64 {
    // FNV-1a followed by a SplitMix finaliser.
    let mut h: u64 = 0xcbf29ce484222325;
    for b in bytes {
        h ^= *b as u64;
        h = h.wrapping_mul(0x100000001b3);
    }
    mix(h)
}

pub fn hash_str(s: &str) -> u64 {
    hash_bytes(s.as_bytes())
}

pub fn hash2(a: u64, b: u64) -> u64 {
    mix(a ^ mix(b.wrapping_add(0x9E3779B97F4A7C15)))
}

impl Rng {
    pub fn new(seed: u64, tag: &str, stream: u64, case: u64) -> Rng {
        let mut s = mix(seed.wrapping_add(0x9E3779B97F4A7C15));
        s = hash2(s, hash_str(tag));
        s = hash2(s, stream);
        s = hash2(s, case);
        Rng(s)
    }

    pub fn next_u64(&mut self) -> u64 {
        self.0 = self.0.wrapping_add(0x9E3779B97F4A7C15);
        mix(self.0)
    }

    pub fn next_u32(&mut self) -> u32 {
        (self.next_u64() >> 32) as u32
    }

    /// Uniform in 0..n (n > 0).
    pub fn below(&mut self, n: usize) -> usize {
        debug_assert!(n > 0);
        ((self.next_u64() >> 11) % (n as u64)) as usize
    }

    /// Uniform in lo..=hi.
    pub fn range(&mut self, lo: usize, hi: usize) -> usize {
        lo + self.below(hi - lo + 1)
    }

    pub fn bool(&mut self) -> bool {
        self.next_u64() & 1 == 1
    }

    /// True with probability num/den.
    pub fn chance(&mut self, num: usize, den: usize) -> bool {
        self.below(den) < num
    }

    pub fn pick<'a, T>(&mut self, xs: &'a [T]) -> &'a T {
        &xs[self.below(xs.len())]
    }

    /// Fisher-Yates.
    pub fn shuffle<T>(&mut self, xs: &mut [T]) {
        for i in (1..xs.len()).rev() {
            let j = self.below(i + 1);
            xs.swap(i, j);
        }
    }

    pub fn fork(&mut self) -> Rng {
        Rng(mix(self.next_u64()))
    }
}
