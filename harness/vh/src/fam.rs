//! The Serde type family used by C04, C14 and C18: ~40 concrete Rust types
//! covering every Serde data-model category the crate documents, each with a
//! generator, a float-aware equality, and the *documented* S-expression shape.

use crate::gen;
use crate::model::num;
use crate::rng::Rng;
use lexpr::Value;
use serde::de::DeserializeOwned;
use serde::Serialize;
use serde_bytes::ByteBuf;
use serde_derive::{Deserialize, Serialize};
use std::collections::{BTreeMap, BTreeSet};
use std::fmt::Debug;

/// Annotated documented shape.
#[derive(Clone, Debug)]
pub enum Shape {
    Atom(Value),
    Unit,
    Seq(Vec<Shape>),
    Tuple(Vec<Shape>),
    Alist(Vec<(Shape, Shape)>),
    Struct(Vec<(&'static str, Shape)>),
    None_,
    Some_(Box<Shape>),
    UnitVariant(&'static str),
    NewtypeVariant(&'static str, Box<Shape>),
    TupleVariant(&'static str, Vec<Shape>),
    StructVariant(&'static str, Vec<(&'static str, Shape)>),
}

impl Shape {
    /// The documented serialization.
    pub fn canonical(&self) -> Value {
        match self {
            Shape::Atom(v) => v.clone(),
            Shape::Unit => Value::Null,
            Shape::Seq(xs) => Value::list(xs.iter().map(|x| x.canonical()).collect::<Vec<_>>()),
            Shape::Tuple(xs) => Value::vector(xs.iter().map(|x| x.canonical()).collect::<Vec<_>>()),
            Shape::Alist(kvs) => Value::list(kvs.iter().map(|(k, v)| Value::cons(k.canonical(), v.canonical())).collect::<Vec<_>>()),
            Shape::Struct(fs) => Value::list(fs.iter().map(|(k, v)| Value::cons(Value::symbol(*k), v.canonical())).collect::<Vec<_>>()),
            Shape::None_ => Value::Null,
            Shape::Some_(x) => Value::list(vec![x.canonical()]),
            Shape::UnitVariant(n) => Value::symbol(*n),
            Shape::NewtypeVariant(n, p) => Value::cons(Value::symbol(*n), p.canonical()),
            Shape::TupleVariant(n, xs) => Value::cons(Value::symbol(*n), Value::list(xs.iter().map(|x| x.canonical()).collect::<Vec<_>>())),
            Shape::StructVariant(n, fs) => Value::cons(Value::symbol(*n), Value::list(fs.iter().map(|(k, v)| Value::cons(Value::symbol(*k), v.canonical())).collect::<Vec<_>>())),
        }
    }

    fn children_mut(&mut self) -> Vec<&mut Shape> {
        match self {
            Shape::Atom(_) | Shape::Unit | Shape::None_ | Shape::UnitVariant(_) => vec![],
            Shape::Seq(xs) | Shape::Tuple(xs) | Shape::TupleVariant(_, xs) => xs.iter_mut().collect(),
            Shape::Alist(kvs) => kvs.iter_mut().flat_map(|(k, v)| vec![k, v]).collect(),
            Shape::Struct(fs) | Shape::StructVariant(_, fs) => fs.iter_mut().map(|(_, v)| v).collect(),
            Shape::Some_(x) | Shape::NewtypeVariant(_, x) => vec![&mut **x],
        }
    }

    /// Number of Seq/Tuple nodes (positions with a documented alternative encoding).
    pub fn count_seq_tuple(&mut self) -> usize {
        let own = matches!(self, Shape::Seq(_) | Shape::Tuple(_)) as usize;
        own + self.children_mut().into_iter().map(|c| c.count_seq_tuple()).sum::<usize>()
    }
}

#[derive(Clone, Copy, Debug, PartialEq)]
pub enum AltKind {
    /// vector where a sequence is expected / proper list where a tuple is expected: must be accepted
    Accept,
    /// improper list in that position: must be rejected with a data error
    ImproperReject,
    /// wrong kind in that position: must be rejected with a data error
    WrongKindReject,
}

/// Render `shape` with the k-th Seq/Tuple node (pre-order) encoded per `alt`.
pub fn render_alt(shape: &Shape, k: usize, alt: AltKind, wrong: &Value, variant: usize) -> Option<Value> {
    let mut counter = 0usize;
    let mut applied = false;
    let v = render(shape, k, alt, wrong, variant, &mut counter, &mut applied);
    if applied {
        Some(v)
    } else {
        None
    }
}

/// A wrong-kind stand-in that resembles the content it replaces: the items as
/// a byte vector (when they are octets) or as a string (when they are chars),
/// or an empty byte vector / string.
fn lookalike(items: &[Value], variant: usize) -> Option<Value> {
    match variant {
        1 => {
            let octets: Option<Vec<u8>> = items.iter().map(|v| v.as_u64().filter(|n| *n < 256).map(|n| n as u8)).collect();
            Some(Value::bytes(octets.unwrap_or_else(|| vec![items.len() as u8; items.len()])))
        }
        2 => Some(Value::bytes(Vec::<u8>::new())),
        3 => {
            let chars: Option<String> = items.iter().map(|v| v.as_char()).collect();
            Some(Value::string(chars.unwrap_or_default()))
        }
        _ => None,
    }
}

fn render(s: &Shape, k: usize, alt: AltKind, wrong: &Value, variant: usize, counter: &mut usize, applied: &mut bool) -> Value {
    let mut kids = |xs: &Vec<Shape>, counter: &mut usize, applied: &mut bool| -> Vec<Value> { xs.iter().map(|x| render(x, k, alt, wrong, variant, counter, applied)).collect() };
    match s {
        Shape::Seq(xs) | Shape::Tuple(xs) => {
            let me = *counter;
            *counter += 1;
            let mut items = kids(xs, counter, applied);
            let is_seq = matches!(s, Shape::Seq(_));
            if me == k {
                *applied = true;
                match alt {
                    AltKind::Accept => {
                        if is_seq {
                            Value::vector(items)
                        } else {
                            Value::list(items)
                        }
                    }
                    AltKind::ImproperReject => {
                        if items.is_empty() {
                            // an improper "empty list" is just the atom: wrong kind
                            wrong.clone()
                        } else if variant == 1 && items.len() >= 2 && !matches!(items[items.len() - 1], Value::Null | Value::Cons(_)) {
                            // the last item itself as the dotted tail: (1 . 2), (1 2 . 3)
                            let last = items.pop().unwrap();
                            Value::append(items, last)
                        } else if variant == 2 {
                            Value::append(items, Value::bytes(vec![0u8]))
                        } else if variant == 3 {
                            Value::append(items, Value::vector(Vec::<Value>::new()))
                        } else {
                            Value::append(items, wrong.clone())
                        }
                    }
                    AltKind::WrongKindReject => lookalike(&items, variant).unwrap_or_else(|| wrong.clone()),
                }
            } else if is_seq {
                Value::list(items)
            } else {
                Value::vector(items)
            }
        }
        Shape::Atom(v) => v.clone(),
        Shape::Unit | Shape::None_ => Value::Null,
        Shape::Alist(kvs) => Value::list(kvs.iter().map(|(a, b)| Value::cons(render(a, k, alt, wrong, variant, counter, applied), render(b, k, alt, wrong, variant, counter, applied))).collect::<Vec<_>>()),
        Shape::Struct(fs) => Value::list(fs.iter().map(|(n, v)| Value::cons(Value::symbol(*n), render(v, k, alt, wrong, variant, counter, applied))).collect::<Vec<_>>()),
        Shape::Some_(x) => Value::list(vec![render(x, k, alt, wrong, variant, counter, applied)]),
        Shape::UnitVariant(n) => Value::symbol(*n),
        Shape::NewtypeVariant(n, p) => Value::cons(Value::symbol(*n), render(p, k, alt, wrong, variant, counter, applied)),
        Shape::TupleVariant(n, xs) => {
            let items = kids(xs, counter, applied);
            Value::cons(Value::symbol(*n), Value::list(items))
        }
        Shape::StructVariant(n, fs) => Value::cons(Value::symbol(*n), Value::list(fs.iter().map(|(f, v)| Value::cons(Value::symbol(*f), render(v, k, alt, wrong, variant, counter, applied))).collect::<Vec<_>>())),
    }
}

#[derive(Clone, Copy)]
pub struct G {
    pub finite: bool,
    pub depth: u32,
}

impl G {
    fn deeper(self) -> G {
        G { finite: self.finite, depth: self.depth + 1 }
    }
}

pub trait Fam: Serialize + DeserializeOwned + Clone + Debug + 'static {
    fn gen(rng: &mut Rng, g: G) -> Self;
    fn shape(&self) -> Shape;
    /// equality; `text`: floats went through text in the fast-float build
    fn same(&self, o: &Self, text: bool) -> bool;
}

macro_rules! fam_int {
    ($($t:ty),*) => {$(
        impl Fam for $t {
            fn gen(rng: &mut Rng, _g: G) -> Self {
                match rng.below(6) {
                    0 => <$t>::MIN,
                    1 => <$t>::MAX,
                    2 => 0 as $t,
                    3 => (<$t>::MAX / 2).wrapping_add(rng.below(3) as $t),
                    4 => (rng.below(300) as i64 - 150) as $t,
                    _ => rng.next_u64() as $t,
                }
            }
            fn shape(&self) -> Shape {
                // every integer as the integer of the same mathematical value
                Shape::Atom(Value::Number(gen::int_to_number(*self as i128)))
            }
            fn same(&self, o: &Self, _t: bool) -> bool { self == o }
        }
    )*};
}
fam_int!(u8, u16, u32, u64, i8, i16, i32, i64);

impl Fam for f64 {
    fn gen(rng: &mut Rng, g: G) -> Self {
        if !g.finite && rng.chance(1, 10) {
            return *rng.pick(&[f64::NAN, f64::INFINITY, f64::NEG_INFINITY]);
        }
        gen::gen_f64(rng)
    }
    fn shape(&self) -> Shape {
        Shape::Atom(Value::from(*self))
    }
    fn same(&self, o: &Self, text: bool) -> bool {
        if text {
            num::float_roundtrip_ok(*self, *o, false)
        } else {
            self.to_bits() == o.to_bits()
        }
    }
}

impl Fam for f32 {
    fn gen(rng: &mut Rng, g: G) -> Self {
        if !g.finite && rng.chance(1, 10) {
            return *rng.pick(&[f32::NAN, f32::INFINITY, f32::NEG_INFINITY]);
        }
        let f = match rng.below(5) {
            0 => *rng.pick(&[0.0f32, -0.0, 1.0, 0.1, 1.5, f32::MAX, f32::MIN_POSITIVE, 1e-45, 16777216.0, 16777217.0, 3.4e38, 1e10]),
            1 => gen::gen_f64(rng) as f32,
            _ => f32::from_bits(rng.next_u32()),
        };
        if f.is_finite() {
            f
        } else {
            0.25
        }
    }
    fn shape(&self) -> Shape {
        Shape::Atom(Value::from(f64::from(*self)))
    }
    fn same(&self, o: &Self, _text: bool) -> bool {
        self.to_bits() == o.to_bits()
    }
}

impl Fam for bool {
    fn gen(rng: &mut Rng, _g: G) -> Self {
        rng.bool()
    }
    fn shape(&self) -> Shape {
        Shape::Atom(Value::Bool(*self))
    }
    fn same(&self, o: &Self, _t: bool) -> bool {
        self == o
    }
}

impl Fam for char {
    fn gen(rng: &mut Rng, _g: G) -> Self {
        gen::gen_char(rng)
    }
    fn shape(&self) -> Shape {
        Shape::Atom(Value::Char(*self))
    }
    fn same(&self, o: &Self, _t: bool) -> bool {
        self == o
    }
}

impl Fam for String {
    fn gen(rng: &mut Rng, _g: G) -> Self {
        gen::gen_string(rng, 10)
    }
    fn shape(&self) -> Shape {
        Shape::Atom(Value::string(self.as_str()))
    }
    fn same(&self, o: &Self, _t: bool) -> bool {
        self == o
    }
}

impl Fam for ByteBuf {
    fn gen(rng: &mut Rng, _g: G) -> Self {
        ByteBuf::from(gen::gen_bytes(rng, 12))
    }
    fn shape(&self) -> Shape {
        Shape::Atom(Value::bytes(self.to_vec()))
    }
    fn same(&self, o: &Self, _t: bool) -> bool {
        self == o
    }
}

impl Fam for () {
    fn gen(_rng: &mut Rng, _g: G) -> Self {}
    fn shape(&self) -> Shape {
        Shape::Unit
    }
    fn same(&self, _o: &Self, _t: bool) -> bool {
        true
    }
}

fn gen_len(rng: &mut Rng, g: G) -> usize {
    if g.depth >= 3 {
        return rng.below(2);
    }
    match rng.below(8) {
        0 => 0,
        1 => 1,
        2 if g.depth == 0 => rng.range(0, 300),
        // collections of 2^k-1, 2^k, 2^k+1 elements (k = 8, 10, 12): one in 64 top-level collections
        3 if g.depth == 0 && rng.chance(1, 8) => ((1usize << *rng.pick(&[8u32, 10, 12])) as i64 + rng.below(3) as i64 - 1) as usize,
        _ => rng.range(0, 5),
    }
}

impl<T: Fam> Fam for Vec<T> {
    fn gen(rng: &mut Rng, g: G) -> Self {
        (0..gen_len(rng, g)).map(|_| T::gen(rng, g.deeper())).collect()
    }
    fn shape(&self) -> Shape {
        Shape::Seq(self.iter().map(|x| x.shape()).collect())
    }
    fn same(&self, o: &Self, t: bool) -> bool {
        self.len() == o.len() && self.iter().zip(o).all(|(a, b)| a.same(b, t))
    }
}

impl<T: Fam + Ord> Fam for BTreeSet<T> {
    fn gen(rng: &mut Rng, g: G) -> Self {
        (0..gen_len(rng, g)).map(|_| T::gen(rng, g.deeper())).collect()
    }
    fn shape(&self) -> Shape {
        Shape::Seq(self.iter().map(|x| x.shape()).collect())
    }
    fn same(&self, o: &Self, t: bool) -> bool {
        self.len() == o.len() && self.iter().zip(o).all(|(a, b)| a.same(b, t))
    }
}

impl<K: Fam + Ord, V: Fam> Fam for BTreeMap<K, V> {
    fn gen(rng: &mut Rng, g: G) -> Self {
        (0..gen_len(rng, g).min(8)).map(|_| (K::gen(rng, g.deeper()), V::gen(rng, g.deeper()))).collect()
    }
    fn shape(&self) -> Shape {
        Shape::Alist(self.iter().map(|(k, v)| (k.shape(), v.shape())).collect())
    }
    fn same(&self, o: &Self, t: bool) -> bool {
        self.len() == o.len() && self.iter().zip(o).all(|((a, b), (c, d))| a.same(c, t) && b.same(d, t))
    }
}

impl<T: Fam> Fam for Option<T> {
    fn gen(rng: &mut Rng, g: G) -> Self {
        if rng.chance(1, 3) {
            None
        } else {
            Some(T::gen(rng, g.deeper()))
        }
    }
    fn shape(&self) -> Shape {
        match self {
            None => Shape::None_,
            Some(x) => Shape::Some_(Box::new(x.shape())),
        }
    }
    fn same(&self, o: &Self, t: bool) -> bool {
        match (self, o) {
            (None, None) => true,
            (Some(a), Some(b)) => a.same(b, t),
            _ => false,
        }
    }
}

impl<T: Fam> Fam for Box<T> {
    fn gen(rng: &mut Rng, g: G) -> Self {
        Box::new(T::gen(rng, g))
    }
    fn shape(&self) -> Shape {
        (**self).shape()
    }
    fn same(&self, o: &Self, t: bool) -> bool {
        (**self).same(&**o, t)
    }
}

impl<A: Fam> Fam for (A,) {
    fn gen(rng: &mut Rng, g: G) -> Self {
        (A::gen(rng, g.deeper()),)
    }
    fn shape(&self) -> Shape {
        Shape::Tuple(vec![self.0.shape()])
    }
    fn same(&self, o: &Self, t: bool) -> bool {
        self.0.same(&o.0, t)
    }
}

impl<A: Fam, B: Fam> Fam for (A, B) {
    fn gen(rng: &mut Rng, g: G) -> Self {
        (A::gen(rng, g.deeper()), B::gen(rng, g.deeper()))
    }
    fn shape(&self) -> Shape {
        Shape::Tuple(vec![self.0.shape(), self.1.shape()])
    }
    fn same(&self, o: &Self, t: bool) -> bool {
        self.0.same(&o.0, t) && self.1.same(&o.1, t)
    }
}

impl<A: Fam, B: Fam, C: Fam> Fam for (A, B, C) {
    fn gen(rng: &mut Rng, g: G) -> Self {
        (A::gen(rng, g.deeper()), B::gen(rng, g.deeper()), C::gen(rng, g.deeper()))
    }
    fn shape(&self) -> Shape {
        Shape::Tuple(vec![self.0.shape(), self.1.shape(), self.2.shape()])
    }
    fn same(&self, o: &Self, t: bool) -> bool {
        self.0.same(&o.0, t) && self.1.same(&o.1, t) && self.2.same(&o.2, t)
    }
}

impl Fam for [u16; 3] {
    fn gen(rng: &mut Rng, g: G) -> Self {
        [u16::gen(rng, g), u16::gen(rng, g), u16::gen(rng, g)]
    }
    fn shape(&self) -> Shape {
        Shape::Tuple(self.iter().map(|x| x.shape()).collect())
    }
    fn same(&self, o: &Self, _t: bool) -> bool {
        self == o
    }
}

impl Fam for [u8; 0] {
    fn gen(_rng: &mut Rng, _g: G) -> Self {
        []
    }
    fn shape(&self) -> Shape {
        Shape::Tuple(vec![])
    }
    fn same(&self, _o: &Self, _t: bool) -> bool {
        true
    }
}

#[derive(Serialize, Deserialize, Clone, Debug, PartialEq)]
pub struct UnitS;
impl Fam for UnitS {
    fn gen(_rng: &mut Rng, _g: G) -> Self {
        UnitS
    }
    fn shape(&self) -> Shape {
        Shape::Unit
    }
    fn same(&self, _o: &Self, _t: bool) -> bool {
        true
    }
}

#[derive(Serialize, Deserialize, Clone, Debug, PartialEq)]
pub struct NewS(pub u32);
impl Fam for NewS {
    fn gen(rng: &mut Rng, g: G) -> Self {
        NewS(u32::gen(rng, g))
    }
    fn shape(&self) -> Shape {
        self.0.shape()
    }
    fn same(&self, o: &Self, _t: bool) -> bool {
        self == o
    }
}

#[derive(Serialize, Deserialize, Clone, Debug, PartialEq)]
pub struct NewSeqS(pub Vec<i8>);
impl Fam for NewSeqS {
    fn gen(rng: &mut Rng, g: G) -> Self {
        NewSeqS(Vec::<i8>::gen(rng, g))
    }
    fn shape(&self) -> Shape {
        self.0.shape()
    }
    fn same(&self, o: &Self, _t: bool) -> bool {
        self == o
    }
}

#[derive(Serialize, Deserialize, Clone, Debug, PartialEq)]
pub struct TupS(pub u8, pub String);
impl Fam for TupS {
    fn gen(rng: &mut Rng, g: G) -> Self {
        TupS(u8::gen(rng, g), String::gen(rng, g))
    }
    fn shape(&self) -> Shape {
        Shape::Tuple(vec![self.0.shape(), self.1.shape()])
    }
    fn same(&self, o: &Self, _t: bool) -> bool {
        self == o
    }
}

#[derive(Serialize, Deserialize, Clone, Debug, PartialEq)]
pub struct EmptyTupS();
impl Fam for EmptyTupS {
    fn gen(_rng: &mut Rng, _g: G) -> Self {
        EmptyTupS()
    }
    fn shape(&self) -> Shape {
        Shape::Tuple(vec![])
    }
    fn same(&self, _o: &Self, _t: bool) -> bool {
        true
    }
}

#[derive(Serialize, Deserialize, Clone, Debug, PartialEq)]
pub struct EmptyS {}
impl Fam for EmptyS {
    fn gen(_rng: &mut Rng, _g: G) -> Self {
        EmptyS {}
    }
    fn shape(&self) -> Shape {
        Shape::Struct(vec![])
    }
    fn same(&self, _o: &Self, _t: bool) -> bool {
        true
    }
}

#[derive(Serialize, Deserialize, Clone, Debug)]
pub struct Rec {
    pub name: String,
    pub age: u8,
    pub unit: (),
    pub opt: Option<i32>,
    pub tags: Vec<String>,
    pub ratio: f64,
    pub pair: (i16, char),
}
impl Fam for Rec {
    fn gen(rng: &mut Rng, g: G) -> Self {
        let d = g.deeper();
        Rec { name: String::gen(rng, d), age: u8::gen(rng, d), unit: (), opt: Option::<i32>::gen(rng, d), tags: Vec::<String>::gen(rng, d), ratio: f64::gen(rng, d), pair: <(i16, char)>::gen(rng, d) }
    }
    fn shape(&self) -> Shape {
        Shape::Struct(vec![("name", self.name.shape()), ("age", self.age.shape()), ("unit", Shape::Unit), ("opt", self.opt.shape()), ("tags", self.tags.shape()), ("ratio", self.ratio.shape()), ("pair", self.pair.shape())])
    }
    fn same(&self, o: &Self, t: bool) -> bool {
        self.name == o.name && self.age == o.age && self.opt == o.opt && self.tags == o.tags && self.ratio.same(&o.ratio, t) && self.pair == o.pair
    }
}

#[derive(Serialize, Deserialize, Clone, Debug)]
#[serde(rename_all = "kebab-case")]
pub enum E {
    Unit,
    Newtype(u32),
    NewSeq(Vec<u8>),
    NewOpt(Option<u32>),
    NewUnit(()),
    NewTuple((u8, bool)),
    Boxed(Box<E>),
    Tuple(u32, String),
    OneTuple(i64, Vec<i8>),
    EmptyTuple(),
    Struct { foo: bool, bar: u32 },
    StructOpt { x: Option<f64>, items: Vec<char> },
    EmptyStruct {},
    /// serde keeps tuple style (serialize_tuple_variant, len 1) when a field is skipped
    Skip1(#[serde(skip)] u8, u32),
}
impl Fam for E {
    fn gen(rng: &mut Rng, g: G) -> Self {
        let d = g.deeper();
        let k = if g.depth >= 4 { rng.below(6) } else { rng.below(14) };
        match k {
            0 => E::Unit,
            1 => E::Newtype(u32::gen(rng, d)),
            2 => E::NewSeq(Vec::<u8>::gen(rng, d)),
            3 => E::NewOpt(Option::<u32>::gen(rng, d)),
            4 => E::NewUnit(()),
            5 => E::EmptyTuple(),
            6 => E::Boxed(Box::new(E::gen(rng, d))),
            7 => E::Tuple(u32::gen(rng, d), String::gen(rng, d)),
            8 => E::OneTuple(i64::gen(rng, d), Vec::<i8>::gen(rng, d)),
            9 => E::NewTuple(<(u8, bool)>::gen(rng, d)),
            10 => E::Struct { foo: rng.bool(), bar: u32::gen(rng, d) },
            11 => E::StructOpt { x: Option::<f64>::gen(rng, d), items: Vec::<char>::gen(rng, d) },
            12 => E::Skip1(0, u32::gen(rng, d)),
            _ => E::EmptyStruct {},
        }
    }
    fn shape(&self) -> Shape {
        match self {
            E::Unit => Shape::UnitVariant("unit"),
            E::Newtype(x) => Shape::NewtypeVariant("newtype", Box::new(x.shape())),
            E::NewSeq(x) => Shape::NewtypeVariant("new-seq", Box::new(x.shape())),
            E::NewOpt(x) => Shape::NewtypeVariant("new-opt", Box::new(x.shape())),
            E::NewUnit(()) => Shape::NewtypeVariant("new-unit", Box::new(Shape::Unit)),
            E::NewTuple(x) => Shape::NewtypeVariant("new-tuple", Box::new(x.shape())),
            E::Boxed(x) => Shape::NewtypeVariant("boxed", Box::new(x.shape())),
            E::Tuple(a, b) => Shape::TupleVariant("tuple", vec![a.shape(), b.shape()]),
            E::OneTuple(a, b) => Shape::TupleVariant("one-tuple", vec![a.shape(), b.shape()]),
            E::EmptyTuple() => Shape::TupleVariant("empty-tuple", vec![]),
            E::Struct { foo, bar } => Shape::StructVariant("struct", vec![("foo", foo.shape()), ("bar", bar.shape())]),
            E::StructOpt { x, items } => Shape::StructVariant("struct-opt", vec![("x", x.shape()), ("items", items.shape())]),
            E::EmptyStruct {} => Shape::StructVariant("empty-struct", vec![]),
            E::Skip1(_, b) => Shape::TupleVariant("skip1", vec![b.shape()]),
        }
    }
    fn same(&self, o: &Self, t: bool) -> bool {
        match (self, o) {
            (E::Unit, E::Unit) | (E::NewUnit(()), E::NewUnit(())) | (E::EmptyTuple(), E::EmptyTuple()) | (E::EmptyStruct {}, E::EmptyStruct {}) => true,
            (E::Newtype(a), E::Newtype(b)) => a == b,
            (E::NewSeq(a), E::NewSeq(b)) => a == b,
            (E::NewOpt(a), E::NewOpt(b)) => a == b,
            (E::NewTuple(a), E::NewTuple(b)) => a == b,
            (E::Boxed(a), E::Boxed(b)) => a.same(b, t),
            (E::Tuple(a, b), E::Tuple(c, d)) => a == c && b == d,
            (E::OneTuple(a, b), E::OneTuple(c, d)) => a == c && b == d,
            (E::Struct { foo: a, bar: b }, E::Struct { foo: c, bar: d }) => a == c && b == d,
            (E::StructOpt { x: a, items: b }, E::StructOpt { x: c, items: d }) => a.same(c, t) && b == d,
            (E::Skip1(_, a), E::Skip1(_, b)) => a == b,
            _ => false,
        }
    }
}

#[derive(Serialize, Deserialize, Clone, Debug)]
pub struct Outer {
    pub m: BTreeMap<String, E>,
    pub e: E,
    pub v: Vec<E>,
    pub t: (E, Option<E>),
    pub n: NewS,
    pub u: UnitS,
}
impl Fam for Outer {
    fn gen(rng: &mut Rng, g: G) -> Self {
        let d = g.deeper();
        Outer { m: BTreeMap::<String, E>::gen(rng, d), e: E::gen(rng, d), v: Vec::<E>::gen(rng, d), t: <(E, Option<E>)>::gen(rng, d), n: NewS::gen(rng, d), u: UnitS }
    }
    fn shape(&self) -> Shape {
        Shape::Struct(vec![("m", self.m.shape()), ("e", self.e.shape()), ("v", self.v.shape()), ("t", self.t.shape()), ("n", self.n.shape()), ("u", Shape::Unit)])
    }
    fn same(&self, o: &Self, t: bool) -> bool {
        self.m.same(&o.m, t) && self.e.same(&o.e, t) && self.v.same(&o.v, t) && self.t.same(&o.t, t) && self.n == o.n
    }
}

// ---- round-7 additions: composite map keys, deeper option nesting, a recursive struct

#[derive(Serialize, Deserialize, Clone, Debug, PartialEq, Eq, PartialOrd, Ord)]
#[serde(rename_all = "kebab-case")]
pub enum Color {
    Red,
    DarkGreen,
    Blue2,
}
impl Fam for Color {
    fn gen(rng: &mut Rng, _g: G) -> Self {
        match rng.below(3) {
            0 => Color::Red,
            1 => Color::DarkGreen,
            _ => Color::Blue2,
        }
    }
    fn shape(&self) -> Shape {
        Shape::UnitVariant(match self {
            Color::Red => "red",
            Color::DarkGreen => "dark-green",
            Color::Blue2 => "blue2",
        })
    }
    fn same(&self, o: &Self, _t: bool) -> bool {
        self == o
    }
}

#[derive(Serialize, Deserialize, Clone, Debug)]
pub struct Nest {
    pub color: Color,
    pub next: Option<Box<Nest>>,
    pub by_color: BTreeMap<Color, Option<E>>,
    pub last: (Option<Color>, Vec<Color>),
}
impl Fam for Nest {
    fn gen(rng: &mut Rng, g: G) -> Self {
        let d = g.deeper();
        let next = if g.depth < 4 && rng.chance(1, 2) { Some(Box::new(Nest::gen(rng, d))) } else { None };
        Nest { color: Color::gen(rng, d), next, by_color: BTreeMap::<Color, Option<E>>::gen(rng, d), last: <(Option<Color>, Vec<Color>)>::gen(rng, d) }
    }
    fn shape(&self) -> Shape {
        Shape::Struct(vec![("color", self.color.shape()), ("next", self.next.shape()), ("by_color", self.by_color.shape()), ("last", self.last.shape())])
    }
    fn same(&self, o: &Self, t: bool) -> bool {
        self.color == o.color && self.next.same(&o.next, t) && self.by_color.same(&o.by_color, t) && self.last.same(&o.last, t)
    }
}

// ---- std types whose serde impls take their own decisions (human-readable forms,
// ---- struct-shaped impls written by hand in serde itself)

impl Fam for std::net::Ipv4Addr {
    fn gen(rng: &mut Rng, _g: G) -> Self {
        std::net::Ipv4Addr::from(rng.next_u32())
    }
    fn shape(&self) -> Shape {
        // human-readable formats serialize addresses as strings
        Shape::Atom(Value::string(self.to_string()))
    }
    fn same(&self, o: &Self, _t: bool) -> bool {
        self == o
    }
}

impl Fam for std::net::IpAddr {
    fn gen(rng: &mut Rng, _g: G) -> Self {
        if rng.bool() {
            std::net::IpAddr::V4(std::net::Ipv4Addr::from(rng.next_u32()))
        } else {
            std::net::IpAddr::V6(std::net::Ipv6Addr::from(((rng.next_u64() as u128) << 64) | rng.next_u64() as u128))
        }
    }
    fn shape(&self) -> Shape {
        Shape::Atom(Value::string(self.to_string()))
    }
    fn same(&self, o: &Self, _t: bool) -> bool {
        self == o
    }
}

impl Fam for std::net::SocketAddr {
    fn gen(rng: &mut Rng, g: G) -> Self {
        std::net::SocketAddr::new(std::net::IpAddr::gen(rng, g), rng.next_u32() as u16)
    }
    fn shape(&self) -> Shape {
        Shape::Atom(Value::string(self.to_string()))
    }
    fn same(&self, o: &Self, _t: bool) -> bool {
        self == o
    }
}

impl Fam for std::time::Duration {
    fn gen(rng: &mut Rng, g: G) -> Self {
        std::time::Duration::new(u64::gen(rng, g) / 4, rng.below(1_000_000_000) as u32)
    }
    fn shape(&self) -> Shape {
        Shape::Struct(vec![("secs", self.as_secs().shape()), ("nanos", self.subsec_nanos().shape())])
    }
    fn same(&self, o: &Self, _t: bool) -> bool {
        self == o
    }
}

impl Fam for std::ops::Range<i32> {
    fn gen(rng: &mut Rng, g: G) -> Self {
        i32::gen(rng, g)..i32::gen(rng, g)
    }
    fn shape(&self) -> Shape {
        Shape::Struct(vec![("start", self.start.shape()), ("end", self.end.shape())])
    }
    fn same(&self, o: &Self, _t: bool) -> bool {
        self == o
    }
}

impl Fam for std::num::NonZeroU16 {
    fn gen(rng: &mut Rng, g: G) -> Self {
        std::num::NonZeroU16::new(u16::gen(rng, g).max(1)).unwrap()
    }
    fn shape(&self) -> Shape {
        self.get().shape()
    }
    fn same(&self, o: &Self, _t: bool) -> bool {
        self == o
    }
}

impl Fam for std::num::Wrapping<i16> {
    fn gen(rng: &mut Rng, g: G) -> Self {
        std::num::Wrapping(i16::gen(rng, g))
    }
    fn shape(&self) -> Shape {
        self.0.shape()
    }
    fn same(&self, o: &Self, _t: bool) -> bool {
        self == o
    }
}

impl Fam for std::borrow::Cow<'static, str> {
    fn gen(rng: &mut Rng, g: G) -> Self {
        std::borrow::Cow::Owned(String::gen(rng, g))
    }
    fn shape(&self) -> Shape {
        Shape::Atom(Value::string(&**self))
    }
    fn same(&self, o: &Self, _t: bool) -> bool {
        self == o
    }
}

impl Fam for std::path::PathBuf {
    fn gen(rng: &mut Rng, g: G) -> Self {
        std::path::PathBuf::from(String::gen(rng, g))
    }
    fn shape(&self) -> Shape {
        Shape::Atom(Value::string(self.to_str().unwrap_or("")))
    }
    fn same(&self, o: &Self, _t: bool) -> bool {
        self == o
    }
}

/// A map whose Serialize impl feeds keys and values separately
/// (serialize_key / serialize_value instead of serialize_entry).
#[derive(Clone, Debug, PartialEq)]
pub struct KvMap(pub Vec<(String, i32)>);

impl Serialize for KvMap {
    fn serialize<S: serde::Serializer>(&self, s: S) -> Result<S::Ok, S::Error> {
        use serde::ser::SerializeMap;
        let mut m = s.serialize_map(Some(self.0.len()))?;
        for (k, v) in self.0.iter() {
            m.serialize_key(k)?;
            m.serialize_value(v)?;
        }
        m.end()
    }
}

impl<'de> serde::Deserialize<'de> for KvMap {
    fn deserialize<D: serde::Deserializer<'de>>(d: D) -> Result<Self, D::Error> {
        struct V;
        impl<'de> serde::de::Visitor<'de> for V {
            type Value = KvMap;
            fn expecting(&self, f: &mut std::fmt::Formatter<'_>) -> std::fmt::Result {
                f.write_str("a map")
            }
            fn visit_map<A: serde::de::MapAccess<'de>>(self, mut a: A) -> Result<KvMap, A::Error> {
                let mut out = Vec::new();
                // keys and values requested separately, too
                while let Some(k) = a.next_key::<String>()? {
                    let v = a.next_value::<i32>()?;
                    out.push((k, v));
                }
                Ok(KvMap(out))
            }
        }
        d.deserialize_map(V)
    }
}

impl Fam for KvMap {
    fn gen(rng: &mut Rng, g: G) -> Self {
        KvMap((0..gen_len(rng, g).min(6)).map(|_| (String::gen(rng, g.deeper()), i32::gen(rng, g.deeper()))).collect())
    }
    fn shape(&self) -> Shape {
        Shape::Alist(self.0.iter().map(|(k, v)| (k.shape(), v.shape())).collect())
    }
    fn same(&self, o: &Self, _t: bool) -> bool {
        self == o
    }
}

/// One registered type with monomorphised entry points.
pub struct Entry {
    pub name: &'static str,
    pub c04: fn(&mut crate::report::Report, &mut Rng),
    pub c14: fn(&mut crate::report::Report, &mut Rng),
    pub c18: fn(&mut crate::report::Report, &mut Rng, &crate::gen::Tables),
}

macro_rules! reg {
    ($($t:ty),* $(,)?) => {
        vec![$(Entry {
            name: stringify!($t),
            c04: crate::props::c04::run::<$t>,
            c14: crate::props::c14::run::<$t>,
            c18: crate::props::c18::run::<$t>,
        }),*]
    };
}

pub fn family() -> Vec<Entry> {
    reg![
        u8, u16, u32, u64, i8, i16, i32, i64, f32, f64, bool, char, String, ByteBuf, (),
        UnitS, NewS, NewSeqS, TupS, EmptyTupS, EmptyS, (u8,), (i32, String, bool), [u16; 3], [u8; 0],
        Option<u32>, Option<Option<u8>>, Option<()>, Option<Vec<u8>>, Vec<Option<i16>>, Vec<()>, Vec<String>, Vec<Vec<u8>>, Vec<f64>, Vec<(u8, char)>, BTreeSet<i32>,
        BTreeMap<u8, String>, BTreeMap<char, i32>, BTreeMap<String, Vec<u8>>, BTreeMap<i64, Option<bool>>,
        Rec, E, Vec<E>, Option<E>, BTreeMap<String, E>, Outer,
        std::net::Ipv4Addr, std::net::IpAddr, std::net::SocketAddr, Option<std::net::IpAddr>, std::time::Duration, std::ops::Range<i32>,
        Color, BTreeMap<Color, u8>, BTreeMap<(u8, bool), String>, BTreeMap<Option<u8>, i8>, BTreeMap<String, Option<E>>, Vec<BTreeMap<char, E>>, Option<Option<Option<bool>>>, Nest, Vec<(Option<()>, Vec<()>)>,
        std::num::NonZeroU16, std::num::Wrapping<i16>, std::borrow::Cow<'static, str>, std::path::PathBuf, KvMap, Vec<KvMap>,
    ]
}
