//! Enumerations of all parser (1536) and printer (576) option sets, indexable
//! so that replay files can store just the index.

use lexpr::parse::{self, Brackets, NilSymbol, TSymbol};
use lexpr::print::{self, BoolSyntax, BytesSyntax, NilSyntax, VectorSyntax};
use lexpr::parse::{CharSyntax, KeywordSyntax, StringSyntax};

pub const KW_PREFIX: u8 = 1;
pub const KW_POSTFIX: u8 = 2;
pub const KW_OCTO: u8 = 4;

#[derive(Clone, Copy, Debug, PartialEq, Eq, Hash)]
pub enum QNil {
    Symbol,
    EmptyList,
    Special,
}
#[derive(Clone, Copy, Debug, PartialEq, Eq, Hash)]
pub enum Syn {
    R6RS,
    Elisp,
}

/// Parser option set, described independently of lexpr's own struct.
#[derive(Clone, Copy, Debug, PartialEq, Eq, Hash)]
pub struct Q {
    pub kw: u8,
    pub nil: QNil,
    pub t_true: bool,
    pub brackets_vector: bool,
    pub string: Syn,
    pub chr: Syn,
    pub racket: bool,
    pub digit: bool,
}

pub const N_Q: usize = 8 * 3 * 2 * 2 * 2 * 2 * 2 * 2;

impl Q {
    pub fn from_index(mut i: usize) -> Q {
        assert!(i < N_Q);
        let kw = (i % 8) as u8;
        i /= 8;
        let nil = [QNil::Symbol, QNil::EmptyList, QNil::Special][i % 3];
        i /= 3;
        let t_true = i % 2 == 1;
        i /= 2;
        let brackets_vector = i % 2 == 1;
        i /= 2;
        let string = if i % 2 == 1 { Syn::Elisp } else { Syn::R6RS };
        i /= 2;
        let chr = if i % 2 == 1 { Syn::Elisp } else { Syn::R6RS };
        i /= 2;
        let racket = i % 2 == 1;
        i /= 2;
        let digit = i % 2 == 1;
        Q { kw, nil, t_true, brackets_vector, string, chr, racket, digit }
    }

    pub fn index(&self) -> usize {
        let mut i = self.digit as usize;
        i = i * 2 + self.racket as usize;
        i = i * 2 + (self.chr == Syn::Elisp) as usize;
        i = i * 2 + (self.string == Syn::Elisp) as usize;
        i = i * 2 + self.brackets_vector as usize;
        i = i * 2 + self.t_true as usize;
        i = i * 3
            + match self.nil {
                QNil::Symbol => 0,
                QNil::EmptyList => 1,
                QNil::Special => 2,
            };
        i * 8 + self.kw as usize
    }

    pub fn default_() -> Q {
        Q {
            kw: KW_OCTO,
            nil: QNil::Symbol,
            t_true: false,
            brackets_vector: false,
            string: Syn::R6RS,
            chr: Syn::R6RS,
            racket: false,
            digit: false,
        }
    }

    pub fn elisp() -> Q {
        Q {
            kw: KW_PREFIX,
            nil: QNil::EmptyList,
            t_true: false,
            brackets_vector: true,
            string: Syn::Elisp,
            chr: Syn::Elisp,
            racket: false,
            digit: true,
        }
    }

    pub fn all_on() -> Q {
        Q {
            kw: 7,
            nil: QNil::Special,
            t_true: true,
            brackets_vector: true,
            string: Syn::Elisp,
            chr: Syn::Elisp,
            racket: true,
            digit: true,
        }
    }

    pub fn to_lexpr(&self) -> parse::Options {
        let mut kws = Vec::new();
        if self.kw & KW_PREFIX != 0 {
            kws.push(KeywordSyntax::ColonPrefix);
        }
        if self.kw & KW_POSTFIX != 0 {
            kws.push(KeywordSyntax::ColonPostfix);
        }
        if self.kw & KW_OCTO != 0 {
            kws.push(KeywordSyntax::Octothorpe);
        }
        parse::Options::new()
            .with_keyword_syntaxes(kws)
            .with_nil_symbol(match self.nil {
                QNil::Symbol => NilSymbol::Default,
                QNil::EmptyList => NilSymbol::EmptyList,
                QNil::Special => NilSymbol::Special,
            })
            .with_t_symbol(if self.t_true { TSymbol::True } else { TSymbol::Default })
            .with_brackets(if self.brackets_vector { Brackets::Vector } else { Brackets::List })
            .with_string_syntax(match self.string {
                Syn::R6RS => StringSyntax::R6RS,
                Syn::Elisp => StringSyntax::Elisp,
            })
            .with_char_syntax(match self.chr {
                Syn::R6RS => CharSyntax::R6RS,
                Syn::Elisp => CharSyntax::Elisp,
            })
            .with_racket_hash_percent_symbols(self.racket)
            .with_leading_digit_symbols(self.digit)
    }

    pub fn describe(&self) -> String {
        format!(
            "Q#{}{{kw={}{}{},nil={:?},t={},br={},str={:?},chr={:?},racket={},digit={}}}",
            self.index(),
            if self.kw & KW_PREFIX != 0 { ":x " } else { "" },
            if self.kw & KW_POSTFIX != 0 { "x: " } else { "" },
            if self.kw & KW_OCTO != 0 { "#:x" } else { "" },
            self.nil,
            if self.t_true { "true" } else { "sym" },
            if self.brackets_vector { "vec" } else { "list" },
            self.string,
            self.chr,
            self.racket,
            self.digit
        )
    }
}

#[derive(Clone, Copy, Debug, PartialEq, Eq, Hash)]
pub enum PKw {
    Prefix,
    Postfix,
    Octo,
}
#[derive(Clone, Copy, Debug, PartialEq, Eq, Hash)]
pub enum PNil {
    Symbol,
    Token,
    EmptyList,
    False,
}
#[derive(Clone, Copy, Debug, PartialEq, Eq, Hash)]
pub enum PBytes {
    R6RS,
    R7RS,
    Elisp,
}

/// Printer option set.
#[derive(Clone, Copy, Debug, PartialEq, Eq, Hash)]
pub struct P {
    pub kw: PKw,
    pub nil: PNil,
    pub bool_symbol: bool,
    pub vec_brackets: bool,
    pub bytes: PBytes,
    pub string: Syn,
    pub chr: Syn,
}

pub const N_P: usize = 3 * 4 * 2 * 2 * 3 * 2 * 2;

impl P {
    pub fn from_index(mut i: usize) -> P {
        assert!(i < N_P);
        let kw = [PKw::Prefix, PKw::Postfix, PKw::Octo][i % 3];
        i /= 3;
        let nil = [PNil::Symbol, PNil::Token, PNil::EmptyList, PNil::False][i % 4];
        i /= 4;
        let bool_symbol = i % 2 == 1;
        i /= 2;
        let vec_brackets = i % 2 == 1;
        i /= 2;
        let bytes = [PBytes::R6RS, PBytes::R7RS, PBytes::Elisp][i % 3];
        i /= 3;
        let string = if i % 2 == 1 { Syn::Elisp } else { Syn::R6RS };
        i /= 2;
        let chr = if i % 2 == 1 { Syn::Elisp } else { Syn::R6RS };
        P { kw, nil, bool_symbol, vec_brackets, bytes, string, chr }
    }

    pub fn index(&self) -> usize {
        let mut i = (self.chr == Syn::Elisp) as usize;
        i = i * 2 + (self.string == Syn::Elisp) as usize;
        i = i * 3
            + match self.bytes {
                PBytes::R6RS => 0,
                PBytes::R7RS => 1,
                PBytes::Elisp => 2,
            };
        i = i * 2 + self.vec_brackets as usize;
        i = i * 2 + self.bool_symbol as usize;
        i = i * 4
            + match self.nil {
                PNil::Symbol => 0,
                PNil::Token => 1,
                PNil::EmptyList => 2,
                PNil::False => 3,
            };
        i * 3
            + match self.kw {
                PKw::Prefix => 0,
                PKw::Postfix => 1,
                PKw::Octo => 2,
            }
    }

    pub fn default_() -> P {
        P {
            kw: PKw::Octo,
            nil: PNil::Token,
            bool_symbol: false,
            vec_brackets: false,
            bytes: PBytes::R7RS,
            string: Syn::R6RS,
            chr: Syn::R6RS,
        }
    }

    pub fn elisp() -> P {
        P {
            kw: PKw::Prefix,
            nil: PNil::Symbol,
            bool_symbol: true,
            vec_brackets: true,
            bytes: PBytes::Elisp,
            string: Syn::Elisp,
            chr: Syn::Elisp,
        }
    }

    pub fn to_lexpr(&self) -> print::Options {
        print::Options::default()
            .with_keyword_syntax(match self.kw {
                PKw::Prefix => KeywordSyntax::ColonPrefix,
                PKw::Postfix => KeywordSyntax::ColonPostfix,
                PKw::Octo => KeywordSyntax::Octothorpe,
            })
            .with_nil_syntax(match self.nil {
                PNil::Symbol => NilSyntax::Symbol,
                PNil::Token => NilSyntax::Token,
                PNil::EmptyList => NilSyntax::EmptyList,
                PNil::False => NilSyntax::False,
            })
            .with_bool_syntax(if self.bool_symbol { BoolSyntax::Symbol } else { BoolSyntax::Token })
            .with_vector_syntax(if self.vec_brackets {
                VectorSyntax::Brackets
            } else {
                VectorSyntax::Octothorpe
            })
            .with_bytes_syntax(match self.bytes {
                PBytes::R6RS => BytesSyntax::R6RS,
                PBytes::R7RS => BytesSyntax::R7RS,
                PBytes::Elisp => BytesSyntax::Elisp,
            })
            .with_string_syntax(match self.string {
                Syn::R6RS => StringSyntax::R6RS,
                Syn::Elisp => StringSyntax::Elisp,
            })
            .with_char_syntax(match self.chr {
                Syn::R6RS => CharSyntax::R6RS,
                Syn::Elisp => CharSyntax::Elisp,
            })
    }

    pub fn describe(&self) -> String {
        format!(
            "P#{}{{kw={:?},nil={:?},bool={},vec={},bytes={:?},str={:?},chr={:?}}}",
            self.index(),
            self.kw,
            self.nil,
            if self.bool_symbol { "sym" } else { "tok" },
            if self.vec_brackets { "[]" } else { "#()" },
            self.bytes,
            self.string,
            self.chr
        )
    }
}

/// Is parser set `q` *compatible* with printer set `p` in the sense of C02:
/// it recognises what the printer emits.
pub fn compatible(p: &P, q: &Q) -> bool {
    let kw_ok = match p.kw {
        PKw::Prefix => q.kw & KW_PREFIX != 0,
        PKw::Postfix => q.kw & KW_POSTFIX != 0,
        PKw::Octo => q.kw & KW_OCTO != 0,
    };
    // bracket meaning matches the vector style
    let br_ok = if p.vec_brackets { q.brackets_vector } else { true };
    kw_ok && br_ok && p.string == q.string && p.chr == q.chr
}

#[cfg(test)]
mod tests {
    use super::*;
    #[test]
    fn index_roundtrip() {
        for i in 0..N_Q {
            assert_eq!(Q::from_index(i).index(), i);
        }
        for i in 0..N_P {
            assert_eq!(P::from_index(i).index(), i);
        }
        assert_eq!(Q::from_index(Q::default_().index()), Q::default_());
    }
}
