//! vcheck: entry point of the runtime-monitoring harness.
//!
//!   vcheck check <Cxx> --tier quick|thorough --seed N --evidence F --findings F --replays DIR
//!   vcheck run   <Cxx> --tier T --seed N --json OUT [--tag TAG]     (helper builds: transport report)
//!   vcheck replay <file> --findings F
//!   vcheck child <op> <args..>                                     (crash-monitor children)

use serde_json::{json, Value as J};
use std::time::Instant;
use vh::findings;
use vh::props;
use vh::report::Report;
use vh::run::{self, Ctx};

fn arg_value(args: &[String], name: &str) -> Option<String> {
    args.iter().position(|a| a == name).and_then(|i| args.get(i + 1).cloned())
}

fn nofast_build() -> bool {
    !cfg!(feature = "full")
}

fn mk_ctx(prop: &str, args: &[String]) -> Ctx {
    let tier = arg_value(args, "--tier").unwrap_or_else(|| "quick".into());
    let seed = arg_value(args, "--seed")
        .and_then(|s| s.parse::<u64>().ok())
        .or_else(|| std::env::var("VERIF_SEED").ok().and_then(|s| s.parse::<u64>().ok()))
        .unwrap_or(1);
    let threads = arg_value(args, "--threads")
        .and_then(|s| s.parse().ok())
        .or_else(|| std::env::var("VH_THREADS").ok().and_then(|s| s.parse().ok()))
        .unwrap_or_else(|| std::thread::available_parallelism().map(|n| n.get()).unwrap_or(4));
    Ctx {
        prop: prop.to_string(),
        seed,
        thorough: tier == "thorough",
        threads,
        nofast: nofast_build(),
        only_tag: arg_value(args, "--tag"),
    }
}

fn main() {
    let args: Vec<String> = std::env::args().collect();
    if args.len() < 2 {
        eprintln!("usage: vcheck check|run|replay|child ...");
        std::process::exit(2);
    }
    match args[1].as_str() {
        "child" => {
            let code = vh::props::child_main(&args[2..]);
            std::process::exit(code);
        }
        "run" => {
            let prop = &args[2];
            let ctx = mk_ctx(prop, &args);
            let def = match props::get(prop) {
                Some(d) => d,
                None => {
                    eprintln!("unknown property {}", prop);
                    std::process::exit(2);
                }
            };
            let sets = (def.sets)(&ctx);
            let rep = run::run_sets(&ctx, &sets);
            let out = arg_value(&args, "--json").expect("--json");
            std::fs::write(&out, serde_json::to_vec(&rep.to_transport()).unwrap()).unwrap();
        }
        "check" => {
            let prop = args[2].clone();
            let code = check(&prop, &args);
            std::process::exit(code);
        }
        "replay" => {
            let code = replay(&args[2], &args);
            std::process::exit(code);
        }
        other => {
            eprintln!("unknown subcommand {}", other);
            std::process::exit(2);
        }
    }
}

fn helper_report(bin_env: &str, label: &str, ctx: &Ctx, total: &mut Report) {
    let bin = match std::env::var(bin_env) {
        Ok(b) if !b.is_empty() => b,
        _ => {
            total.inconclusive(format!("helper build {} not available ({} unset)", label, bin_env));
            return;
        }
    };
    let tmp = format!("{}/vh-{}-{}-{}.tmp", std::env::temp_dir().display(), ctx.prop, label, std::process::id());
    let args: Vec<String> = vec![
        "run".into(),
        ctx.prop.clone(),
        "--tier".into(),
        ctx.tier().into(),
        "--seed".into(),
        ctx.seed.to_string(),
        "--threads".into(),
        ctx.threads.to_string(),
        "--json".into(),
        tmp.clone(),
    ];
    let r = vh::mon::child::run(&bin, &args, std::time::Duration::from_secs(3 * 3600));
    match r.exit {
        vh::mon::child::Exit::Code(0) => match std::fs::read(&tmp).ok().and_then(|b| serde_json::from_slice::<J>(&b).ok()) {
            Some(j) => total.merge(Report::from_transport(&j, label)),
            None => total.inconclusive(format!("helper build {} produced no report", label)),
        },
        other => total.inconclusive(format!("helper build {} failed: {:?} {}", label, other, r.stderr_tail)),
    }
    let _ = std::fs::remove_file(&tmp);
}

fn check(prop: &str, args: &[String]) -> i32 {
    let start = Instant::now();
    let ctx = mk_ctx(prop, args);
    let def = match props::get(prop) {
        Some(d) => d,
        None => {
            eprintln!("unknown property {}", prop);
            return 2;
        }
    };
    let evidence_path = arg_value(args, "--evidence").unwrap_or_else(|| format!("evidence/{}.json", prop));
    let findings_path = arg_value(args, "--findings").unwrap_or_else(|| "known_findings.json".into());
    let replay_dir = arg_value(args, "--replays").unwrap_or_else(|| "replays".into());
    let known = findings::load(&findings_path);

    let sets = (def.sets)(&ctx);
    let mut rep = run::run_sets(&ctx, &sets);
    if def.nofast_too && ctx.only_tag.is_none() {
        helper_report("VH_NOFAST_BIN", "nofast", &ctx, &mut rep);
    }
    if rep.evaluations < def.min_evals(&ctx) && ctx.only_tag.is_none() {
        rep.inconclusive(format!(
            "only {} oracle decisions made, fewer than the stated minimum {}",
            rep.evaluations,
            def.min_evals(&ctx)
        ));
    }
    if let Some(check_min) = def.post {
        check_min(&ctx, &mut rep);
    }

    // classify violations
    let _ = std::fs::create_dir_all(&replay_dir);
    let mut unknown = 0usize;
    let mut printed_known: std::collections::BTreeSet<String> = Default::default();
    let mut lines: Vec<String> = Vec::new();
    for v in &rep.violations {
        if findings::is_known(&known, prop, &v.signature) {
            if printed_known.insert(v.signature.clone()) {
                lines.push(format!("KNOWN-FINDING: property={} {} :: {}", prop, v.signature, v.detail));
            }
        } else {
            unknown += 1;
            let h = vh::rng::hash_str(&format!("{}{}", v.signature, v.detail));
            let path = format!("{}/{}-{:016x}.json", replay_dir, prop, h);
            let body = json!({
                "property": prop, "check": v.check, "signature": v.signature,
                "detail": v.detail, "replay": v.replay,
            });
            let _ = std::fs::write(&path, serde_json::to_vec_pretty(&body).unwrap());
            lines.push(format!("  {} :: {}", v.signature, v.detail));
            lines.push(format!("VIOLATION property={} replay={}", prop, path));
        }
    }
    // signatures seen but whose examples were not kept (cap) still count
    for (sig, n) in &rep.violation_signatures {
        let is_k = findings::is_known(&known, prop, sig);
        if !is_k && !rep.violations.iter().any(|v| &v.signature == sig) {
            unknown += 1;
            lines.push(format!("VIOLATION property={} replay=<not kept: {} x{}>", prop, sig, n));
        }
    }

    let wall = start.elapsed().as_secs_f64();
    let coverage = rep.coverage_json(def.rule);
    let evidence = json!({
        "property_id": prop,
        "tier": ctx.tier(),
        "seed": ctx.seed,
        "level": def.level,
        "coverage": coverage,
        "assumptions": def.assumptions,
        "wall_s": wall,
        "violations": unknown,
        "known_findings_reported": printed_known.iter().collect::<Vec<_>>(),
        "verdict": if unknown > 0 { "violated" } else if !rep.inconclusive.is_empty() { "inconclusive" } else { "held on what was observed" },
    });
    if let Some(dir) = std::path::Path::new(&evidence_path).parent() {
        let _ = std::fs::create_dir_all(dir);
    }
    if ctx.only_tag.is_none() {
        std::fs::write(&evidence_path, serde_json::to_vec_pretty(&evidence).unwrap()).expect("write evidence");
    }

    println!(
        "{} {} seed={} : {} oracle decisions, {} distinct non-trivial cases, {:.1}s",
        prop,
        ctx.tier(),
        ctx.seed,
        rep.evaluations,
        rep.distinct.len(),
        wall
    );
    for (k, v) in rep.counters.iter().take(60) {
        println!("    {:<44} {}", k, v);
    }
    for l in &lines {
        println!("{}", l);
    }
    if unknown > 0 {
        return 1;
    }
    if !rep.inconclusive.is_empty() {
        for s in &rep.inconclusive {
            println!("INCONCLUSIVE: {}", s);
        }
        return 2;
    }
    println!("{}: held on everything explored", prop);
    0
}

fn replay(path: &str, args: &[String]) -> i32 {
    let body: J = match std::fs::read(path).ok().and_then(|b| serde_json::from_slice(&b).ok()) {
        Some(j) => j,
        None => {
            eprintln!("cannot read replay file {}", path);
            return 2;
        }
    };
    let hdr = &body["replay"]["header"];
    let prop = hdr["property"].as_str().or(body["property"].as_str()).unwrap_or("").to_string();
    let want_nofast = hdr["nofast_build"].as_bool().unwrap_or(false) || body["replay"]["build"].as_str() == Some("nofast");
    if want_nofast && !nofast_build() {
        if let Ok(bin) = std::env::var("VH_NOFAST_BIN") {
            let mut a: Vec<String> = vec!["replay".into(), path.into()];
            a.extend(args[3..].iter().cloned());
            let r = vh::mon::child::run(&bin, &a, std::time::Duration::from_secs(3600));
            print!("{}", r.stdout);
            return match r.exit {
                vh::mon::child::Exit::Code(c) => c,
                _ => 2,
            };
        }
    }
    let def = match props::get(&prop) {
        Some(d) => d,
        None => {
            eprintln!("unknown property in replay file");
            return 2;
        }
    };
    let ctx = Ctx {
        prop: prop.clone(),
        seed: hdr["seed"].as_u64().unwrap_or(1),
        thorough: hdr["tier"].as_str() == Some("thorough"),
        threads: 1,
        nofast: nofast_build(),
        only_tag: None,
    };
    let tag = hdr["tag"].as_str().unwrap_or("");
    let case = hdr["case"].as_u64().unwrap_or(0);
    let sets = (def.sets)(&ctx);
    let findings_path = arg_value(args, "--findings").unwrap_or_else(|| "known_findings.json".into());
    let known = findings::load(&findings_path);
    match run::replay_case(&ctx, &sets, tag, case) {
        None => {
            eprintln!("no case set {:?} in {}", tag, prop);
            2
        }
        Some(rep) => {
            let mut bad = 0;
            for v in &rep.violations {
                if findings::is_known(&known, &prop, &v.signature) {
                    println!("KNOWN-FINDING: property={} {} :: {}", prop, v.signature, v.detail);
                } else {
                    bad += 1;
                    println!("  {} :: {}", v.signature, v.detail);
                    println!("VIOLATION property={} replay={}", prop, path);
                }
            }
            for s in &rep.inconclusive {
                println!("INCONCLUSIVE: {}", s);
            }
            if bad > 0 {
                1
            } else if !rep.inconclusive.is_empty() {
                2
            } else {
                println!("replay of {} case {}: no violation on the current tree", tag, case);
                0
            }
        }
    }
}
