//! Generators: leaves from boundary tables + uniform draws, identifiers from
//! the R7RS grammar, recursive values of all 11 kinds.

pub mod text;

use crate::rng::Rng;
use lexpr::{Number, Value};

pub const BOUNDARY_CHARS: &[char] = &[
    '\0', '\x01', '\x07', '\x08', '\t', '\n', '\x0B', '\x0C', '\r', '\x1B', '\x1F', ' ', '!', '"',
    '#', '\'', '(', ')', ',', '.', ';', '?', '@', '[', '\\', ']', '`', '|', '~', '\x7F', '\u{80}',
    '\u{85}', '\u{9F}', '\u{A0}', '\u{FF}', '\u{100}', 'λ', 'é', 'ß', 'я', '\u{7FF}', '\u{800}',
    '中', '\u{2028}', '\u{D7FF}', '\u{E000}', '\u{FEFF}', '\u{FFFD}', '\u{FFFE}', '\u{FFFF}',
    '\u{10000}', '𝒳', '\u{1F600}', '\u{10FFFF}', 'a', 'Z', '0', '9', 'x', 'n', 't', 'u', 'U', 'N',
    '^', '-', '+', ':', '/', '*', '<', '=', '>', '_', '$', '%', '&', '{', '}',
];

pub fn gen_char(rng: &mut Rng) -> char {
    match rng.below(10) {
        0..=4 => *rng.pick(BOUNDARY_CHARS),
        5 => (rng.below(128) as u8) as char,
        6 => char::from_u32(rng.below(0x800) as u32).unwrap_or('a'),
        7 => char::from_u32(rng.below(0x10000) as u32).unwrap_or('b'),
        _ => char::from_u32(rng.below(0x110000) as u32).unwrap_or('c'),
    }
}

pub fn gen_string(rng: &mut Rng, max_len: usize) -> String {
    let n = match rng.below(48) {
        0..=5 => 0,
        6..=11 => 1,
        // occasionally longer than the parser's initial scratch capacity (128 bytes)
        12 => rng.range(100, 300),
        13 => *rng.pick(&[127usize, 128, 129, 255, 256, 257]),
        _ => rng.range(0, max_len),
    };
    let mode = rng.below(4);
    let mut s = String::new();
    for _ in 0..n {
        let c = match mode {
            0 => (rng.range(0x20, 0x7e) as u8) as char,
            1 => *rng.pick(BOUNDARY_CHARS),
            _ => gen_char(rng),
        };
        s.push(c);
    }
    s
}

pub fn gen_bytes(rng: &mut Rng, max_len: usize) -> Vec<u8> {
    let n = match rng.below(6) {
        0 => 0,
        1 => 1,
        _ => rng.range(0, max_len),
    };
    let mode = rng.below(3);
    (0..n)
        .map(|_| match mode {
            0 => rng.below(256) as u8,
            1 => *rng.pick(&[0u8, 1, 7, 8, 9, 10, 13, 31, 32, 34, 92, 127, 128, 200, 255]),
            _ => rng.below(128) as u8,
        })
        .collect()
}

/// Boundary integers as i128 so that both u64 and i64 ranges are covered.
pub fn boundary_ints() -> Vec<i128> {
    let mut v: Vec<i128> = vec![0, 1, -1, 2, -2, 9, 10, 11, 99, 100, 255, 256, -128, -129, 127];
    for k in 1..=64u32 {
        let p = 1i128 << k;
        for d in [-1i128, 0, 1] {
            v.push(p + d);
            v.push(-(p + d));
        }
    }
    let mut p10: i128 = 1;
    for _ in 0..20 {
        p10 *= 10;
        for d in [-1i128, 0, 1] {
            v.push(p10 + d);
            v.push(-(p10 + d));
        }
    }
    v.push(i64::MIN as i128);
    v.push(i64::MIN as i128 + 1);
    v.push(i64::MAX as i128);
    v.push(u64::MAX as i128);
    v.push(u64::MAX as i128 - 1);
    v.push(u32::MAX as i128);
    v.push(i32::MIN as i128);
    v.retain(|x| *x >= i64::MIN as i128 && *x <= u64::MAX as i128);
    v.sort();
    v.dedup();
    v
}

pub fn int_to_number(x: i128) -> Number {
    if x >= 0 {
        Number::from(x as u64)
    } else {
        Number::from(x as i64)
    }
}

pub fn gen_int(rng: &mut Rng, table: &[i128]) -> i128 {
    match rng.below(6) {
        0..=2 => *rng.pick(table),
        3 => (rng.next_u64() >> rng.below(64)) as i128,
        4 => -(((rng.next_u64() >> 1) >> rng.below(63)) as i128),
        _ => rng.below(1000) as i128 - 500,
    }
}

/// Finite doubles: boundary table, shapes of shortest decimal form, random bits.
pub fn gen_f64(rng: &mut Rng) -> f64 {
    let f = match rng.below(12) {
        0 => *rng.pick(&[
            0.0,
            -0.0,
            1.0,
            -1.0,
            0.5,
            1.5,
            0.1,
            0.2,
            0.3,
            3.14,
            f64::MIN_POSITIVE,
            f64::MAX,
            f64::MIN,
            f64::EPSILON,
            5e-324,
            2.2250738585072009e-308,
            1e21,
            1e22,
            1e23,
            1e16,
            1e15,
            123456789012345680.0,
            9007199254740992.0,
            9007199254740993.0,
            9007199254740991.0,
            1.7976931348623157e308,
            4.9406564584124654e-324,
            1e-7,
            1e-5,
            1e-6,
            1e7,
            0.000001,
            123e-20,
            1.0e-10,
            6.02214076e23,
            1e100,
            1e-100,
            1e308,
            1e-308,
            1e-323,
        ]),
        1 => {
            // 10^k
            let k = rng.range(0, 631) as i32 - 323;
            let s = format!("1e{}", k);
            s.parse::<f64>().unwrap()
        }
        2 => {
            // 2^k
            let k = rng.range(0, 2097) as i32 - 1074;
            2f64.powi(k)
        }
        3 => {
            // integer-valued, up to and beyond 2^53
            let m = rng.next_u64() >> rng.below(64);
            m as f64
        }
        4 => {
            // few significant digits with exponent (shortest form has exponent, no fraction)
            let d = rng.range(1, 9) as f64;
            let k = rng.range(0, 631) as i32 - 323;
            format!("{}e{}", d, k).parse::<f64>().unwrap()
        }
        5 => {
            // d.ddd with small exponent: fraction only
            let m = rng.below(1_000_000) as f64;
            let k = rng.below(7) as i32;
            m / 10f64.powi(k)
        }
        6 => {
            // up to 15 significant digits, |exp| <= 22 (Clinger domain)
            let digits = rng.range(1, 15);
            let mut m: u64 = 0;
            for _ in 0..digits {
                m = m * 10 + rng.below(10) as u64;
            }
            let e = rng.range(0, 44) as i32 - 22;
            format!("{}e{}", m, e).parse::<f64>().unwrap()
        }
        7 => {
            // subnormals
            f64::from_bits(rng.next_u64() & 0x000F_FFFF_FFFF_FFFF)
        }
        _ => f64::from_bits(rng.next_u64()),
    };
    let f = if rng.chance(1, 4) { -f } else { f };
    if f.is_finite() {
        f
    } else {
        1.25
    }
}

// ---------------------------------------------------------------------------
// Identifiers (R7RS 7.1.1)

pub const INITIAL_SPECIAL: &[u8] = b"!$%&*/:<=>?^_~";
pub const UNI_ALPHA: &[char] = &['λ', 'é', 'ß', 'я', '中', '𝒳', 'Ω', 'ñ', 'ｱ', 'א'];

/// All non-ASCII alphabetic scalar values, bucketed by the std-visible
/// properties a hand-written character test could branch on (numeric letters
/// such as Roman numerals, case, UTF-8 length, plane), so that a rare class is
/// drawn as often as a populous one.
pub fn alpha_buckets() -> &'static Vec<Vec<char>> {
    static B: std::sync::OnceLock<Vec<Vec<char>>> = std::sync::OnceLock::new();
    B.get_or_init(|| {
        let mut m: std::collections::BTreeMap<(bool, bool, bool, usize, u32), Vec<char>> = std::collections::BTreeMap::new();
        for n in 128..0x110000u32 {
            if let Some(c) = char::from_u32(n) {
                if c.is_alphabetic() {
                    m.entry((c.is_numeric(), c.is_uppercase(), c.is_lowercase(), c.len_utf8(), n >> 16)).or_default().push(c);
                }
            }
        }
        m.into_values().collect()
    })
}

pub fn gen_uni_alpha(rng: &mut Rng) -> char {
    if rng.bool() {
        *rng.pick(UNI_ALPHA)
    } else {
        let b = alpha_buckets();
        let i = rng.below(b.len());
        *rng.pick(&b[i])
    }
}

fn gen_initial(rng: &mut Rng) -> char {
    match rng.below(10) {
        0..=4 => (b'a' + rng.below(26) as u8) as char,
        5 => (b'A' + rng.below(26) as u8) as char,
        6..=7 => *rng.pick(INITIAL_SPECIAL) as char,
        _ => gen_uni_alpha(rng),
    }
}

fn gen_subsequent(rng: &mut Rng) -> char {
    match rng.below(10) {
        0..=5 => gen_initial(rng),
        6..=7 => (b'0' + rng.below(10) as u8) as char,
        _ => *rng.pick(b"+-.@") as char,
    }
}

fn gen_sign_subsequent(rng: &mut Rng) -> char {
    match rng.below(4) {
        0..=1 => gen_initial(rng),
        _ => *rng.pick(b"+-@") as char,
    }
}

/// Would an R7RS reader take this identifier-shaped token for a number?
pub fn r7rs_reads_as_number(name: &str) -> bool {
    let lower = name.to_ascii_lowercase();
    if lower == "+i" || lower == "-i" {
        return true;
    }
    for p in ["+inf.0", "-inf.0", "+nan.0", "-nan.0"] {
        if lower.starts_with(p) {
            return true;
        }
    }
    false
}

/// An identifier of the R7RS grammar (without |...| forms).
pub fn gen_ident(rng: &mut Rng) -> String {
    loop {
        let mut s = String::new();
        match rng.below(20) {
            0 => s.push('+'),
            1 => s.push('-'),
            2 => s.push_str("..."),
            3 => {
                // sign sign-subsequent subsequent*
                s.push(*rng.pick(b"+-") as char);
                s.push(gen_sign_subsequent(rng));
                for _ in 0..rng.below(5) {
                    s.push(gen_subsequent(rng));
                }
            }
            4 => {
                // sign . dot-subsequent subsequent*
                s.push(*rng.pick(b"+-") as char);
                s.push('.');
                s.push(if rng.bool() { '.' } else { gen_sign_subsequent(rng) });
                for _ in 0..rng.below(4) {
                    s.push(gen_subsequent(rng));
                }
            }
            5 => {
                // . dot-subsequent subsequent*
                s.push('.');
                s.push(if rng.bool() { '.' } else { gen_sign_subsequent(rng) });
                for _ in 0..rng.below(4) {
                    s.push(gen_subsequent(rng));
                }
            }
            6 => s.push_str(*rng.pick::<&str>(&[
                "nil", "t", "quote", "lambda", "->x", "a.b", "x@y", "list->vector", "<=?", "!", "$a",
                "inf", "-inf", "NaN", "nan", "-nan", "infinity", "-Infinity", "e", "E", "e1", "INF", "NIL", "Nil", "T", "True", "false",
                "a:", ":a", "a:b", "::", ":", "nil:", "t:", "e1", "E", "x1+", "set!", "&rest",
            ])),
            _ => {
                s.push(gen_initial(rng));
                let n = match rng.below(60) {
                    0..=9 => 0,
                    10..=19 => rng.below(20),
                    20 => rng.range(120, 260),
                    _ => rng.below(7),
                };
                for _ in 0..n {
                    s.push(gen_subsequent(rng));
                }
            }
        }
        if !r7rs_reads_as_number(&s) {
            return s;
        }
    }
}

// ---------------------------------------------------------------------------
// Values

#[derive(Clone)]
pub struct GenCfg {
    pub max_depth: u32,
    pub max_items: usize,
    pub max_str: usize,
    /// filter deciding whether a symbol/keyword name may be used
    pub name_ok: fn(&str, &NameCtx) -> bool,
    pub name_ctx: NameCtx,
    pub allow_nil: bool,
    pub allow_keyword: bool,
    pub allow_bytes: bool,
    pub allow_float: bool,
}

/// Facts a name filter may depend on (dialect of printer and parser).
#[derive(Clone, Copy, Default)]
pub struct NameCtx {
    pub colon_prefix_kw: bool,
    pub colon_postfix_kw: bool,
    pub elisp_chars: bool,
    pub nil_special: bool,
    pub t_special: bool,
}

pub fn any_name(_: &str, _: &NameCtx) -> bool {
    true
}

/// The C02 notion of "plain in that dialect".
pub fn plain_name(name: &str, c: &NameCtx) -> bool {
    if name.is_empty() {
        return false;
    }
    if c.elisp_chars && name.starts_with('?') {
        return false;
    }
    if (c.colon_prefix_kw || c.colon_postfix_kw) && (name.starts_with(':') || name.ends_with(':')) {
        return false;
    }
    if c.nil_special && name == "nil" {
        return false;
    }
    if c.t_special && name == "t" {
        return false;
    }
    true
}

impl GenCfg {
    pub fn default_dialect() -> GenCfg {
        GenCfg {
            max_depth: 5,
            max_items: 6,
            max_str: 12,
            name_ok: plain_name,
            name_ctx: NameCtx::default(),
            allow_nil: true,
            allow_keyword: true,
            allow_bytes: true,
            allow_float: true,
        }
    }
}

pub fn gen_name(rng: &mut Rng, cfg: &GenCfg) -> String {
    for _ in 0..100 {
        let s = gen_ident(rng);
        if (cfg.name_ok)(&s, &cfg.name_ctx) {
            return s;
        }
    }
    "sym".to_string()
}

pub struct Tables {
    pub ints: Vec<i128>,
}

impl Tables {
    pub fn new() -> Tables {
        Tables { ints: boundary_ints() }
    }
}

pub fn gen_atom(rng: &mut Rng, cfg: &GenCfg, tb: &Tables) -> Value {
    loop {
        match rng.below(12) {
            0 => {
                if cfg.allow_nil {
                    return Value::Nil;
                }
            }
            1 => return Value::Null,
            2 => return Value::Bool(rng.bool()),
            3 | 4 => return Value::Number(int_to_number(gen_int(rng, &tb.ints))),
            5 => {
                if cfg.allow_float {
                    return Value::from(gen_f64(rng));
                }
            }
            6 => return Value::Char(gen_char(rng)),
            7 => return Value::string(gen_string(rng, cfg.max_str)),
            8 | 9 => return Value::symbol(gen_name(rng, cfg)),
            10 => {
                if cfg.allow_keyword {
                    return Value::keyword(gen_name(rng, cfg));
                }
            }
            _ => {
                if cfg.allow_bytes {
                    return Value::bytes(gen_bytes(rng, cfg.max_str));
                }
            }
        }
    }
}

pub fn gen_value(rng: &mut Rng, cfg: &GenCfg, tb: &Tables, depth: u32) -> Value {
    if depth >= cfg.max_depth || rng.chance(2, 5) {
        return gen_atom(rng, cfg, tb);
    }
    let n = match rng.below(5) {
        0 => 0,
        1 => 1,
        _ => rng.range(0, cfg.max_items),
    };
    let items: Vec<Value> = (0..n).map(|_| gen_value(rng, cfg, tb, depth + 1)).collect();
    match rng.below(5) {
        0 | 1 => Value::list(items),
        2 => {
            // dotted list: tail is an atom, a vector, or (merging) another list
            let tail = match rng.below(4) {
                0 => gen_value(rng, cfg, tb, depth + 1),
                _ => gen_atom(rng, cfg, tb),
            };
            Value::append(items, tail)
        }
        _ => Value::vector(items),
    }
}

/// Deeply nested value (for the dedicated deep cases).
pub fn gen_deep(rng: &mut Rng, cfg: &GenCfg, tb: &Tables, depth: u32) -> Value {
    let mut v = gen_atom(rng, cfg, tb);
    for _ in 0..depth {
        v = match rng.below(4) {
            0 => Value::list(vec![v]),
            1 => Value::vector(vec![v]),
            2 => Value::cons(gen_atom(rng, cfg, tb), v),
            _ => Value::list(vec![gen_atom(rng, cfg, tb), v, gen_atom(rng, cfg, tb)]),
        };
    }
    v
}

/// Structural statistics used for "non-trivial" decisions and evidence.
pub fn value_size(v: &Value) -> usize {
    match v {
        Value::Cons(c) => {
            let mut n = 1;
            for cell in c.iter() {
                n += value_size(cell.car());
                if !matches!(cell.cdr(), Value::Cons(_) | Value::Null) {
                    n += value_size(cell.cdr());
                }
            }
            n
        }
        Value::Vector(xs) => 1 + xs.iter().map(value_size).sum::<usize>(),
        _ => 1,
    }
}

pub fn kind_name(v: &Value) -> &'static str {
    match v {
        Value::Nil => "nil",
        Value::Null => "null",
        Value::Bool(_) => "bool",
        Value::Number(n) => {
            if n.is_f64() {
                "float"
            } else {
                "int"
            }
        }
        Value::Char(_) => "char",
        Value::String(_) => "string",
        Value::Symbol(_) => "symbol",
        Value::Keyword(_) => "keyword",
        Value::Bytes(_) => "bytes",
        Value::Cons(_) => "cons",
        Value::Vector(_) => "vector",
    }
}

/// Count kinds occurring anywhere in `v` into the report counters.
pub fn count_kinds(v: &Value, r: &mut crate::report::Report, prefix: &str) {
    r.count(&format!("{}{}", prefix, kind_name(v)));
    match v {
        Value::Cons(c) => {
            for cell in c.iter() {
                count_kinds(cell.car(), r, prefix);
                if !matches!(cell.cdr(), Value::Cons(_) | Value::Null) {
                    r.count(&format!("{}dotted-tail", prefix));
                    count_kinds(cell.cdr(), r, prefix);
                }
            }
        }
        Value::Vector(xs) => {
            for x in xs.iter() {
                count_kinds(x, r, prefix);
            }
        }
        _ => {}
    }
}
