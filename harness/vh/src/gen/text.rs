//! Text generators: token soup, the harness's own "layout printer" (a
//! token-level printer with random trivia and alternative spellings), and
//! byte-level mutations.

use crate::rng::Rng;
use lexpr::Value;

// ------------------------------------------------------------------ trivia

#[derive(Clone, Copy, PartialEq, Debug)]
pub enum TriviaSet {
    /// space, tab, CR, LF, line comments
    Basic,
    /// Basic + form feed
    WithFormFeed,
}

pub const COMMENT_BODIES: &[&str] = &["", " c", " (a . b) \"x", "; λ 中", " #| x |#", " ) ] '", "\t;;", " a\rb (c \"", "\r", "\0", " a\0b (c", " \x0C x", " \x7f\x1b", " \u{feff}\u{2028}x", " \\", " #;"];

pub fn trivia_piece(rng: &mut Rng, set: TriviaSet, out: &mut String) {
    let k = if set == TriviaSet::WithFormFeed { 6 } else { 5 };
    match rng.below(k) {
        0 => out.push(' '),
        1 => out.push('\t'),
        2 => out.push('\n'),
        3 => out.push('\r'),
        4 => {
            out.push(';');
            out.push_str(*rng.pick::<&str>(COMMENT_BODIES));
            out.push('\n');
        }
        _ => out.push('\x0C'),
    }
}

/// `min` = 0: optional trivia; 1: at least one separator.
pub fn trivia(rng: &mut Rng, set: TriviaSet, min: usize, out: &mut String) {
    let n = match rng.below(6) {
        0 | 1 | 2 => min,
        3 => min.max(1),
        4 => 2,
        _ => rng.range(min, 4),
    };
    for _ in 0..n {
        trivia_piece(rng, set, out);
    }
}

// ------------------------------------------------------------- layout printer

#[derive(Clone, Copy, PartialEq, Debug)]
pub enum Lang {
    Scheme,
    Elisp,
}

#[derive(Clone, Copy, PartialEq, Debug)]
enum Kind {
    Open,      // ( or [
    HashOpen,  // #( #u8( #vu8(
    Close,
    Atom,
    Prefix,
    Dot,
}

#[derive(Clone, Debug)]
pub struct Tok {
    text: String,
    kind: Kind,
}

#[derive(Clone, Copy, Debug)]
pub struct LayoutCfg {
    pub lang: Lang,
    pub trivia: TriviaSet,
    /// use alternative spellings (radix prefixes, escapes, char names, brackets, dotted proper lists, quote shorthands)
    pub alt_spellings: bool,
    /// never emit exponent-without-fraction floats etc.? no: spell floats only in forms the C05 grammar has
    pub brackets_as_list: bool,
}

fn tok(text: impl Into<String>, kind: Kind) -> Tok {
    Tok { text: text.into(), kind }
}

const SCHEME_CHAR_NAMES: &[(&str, char)] = &[
    ("nul", '\0'),
    ("alarm", '\x07'),
    ("backspace", '\x08'),
    ("tab", '\t'),
    ("linefeed", '\n'),
    ("newline", '\n'),
    ("vtab", '\x0B'),
    ("page", '\x0C'),
    ("return", '\r'),
    ("esc", '\x1B'),
    ("space", ' '),
    ("delete", '\x7F'),
];

fn spell_int(rng: &mut Rng, cfg: &LayoutCfg, neg: bool, mag: u64) -> String {
    let sign = if neg { "-" } else if cfg.alt_spellings && cfg.lang == Lang::Scheme && rng.chance(1, 6) { "+" } else { "" };
    if !cfg.alt_spellings || rng.chance(1, 2) {
        return format!("{}{}", sign, mag);
    }
    let zeros = ["", "0", "00", "000"][rng.below(4)];
    match (cfg.lang, rng.below(5)) {
        (Lang::Scheme, 0) => format!("#x{}{}{:x}", sign, zeros, mag),
        (Lang::Scheme, 1) => format!("#x{}{}{:X}", sign, zeros, mag),
        (Lang::Scheme, 2) => format!("#b{}{}{:b}", sign, zeros, mag),
        (Lang::Scheme, 3) => format!("#o{}{}{:o}", sign, zeros, mag),
        (Lang::Scheme, _) => format!("#d{}{}{}", sign, zeros, mag),
        (Lang::Elisp, _) => format!("{}{}", sign, mag),
    }
}

/// Spell a finite double as a literal of the grammar digits[.digits][e[+-]digits].
pub fn spell_float(rng: &mut Rng, alt: bool, f: f64) -> String {
    let shortest = format!("{:?}", f); // e.g. 1.5, 1e21, 1.2e-7, 0.1, -0.0
    if !alt || rng.chance(1, 2) {
        return shortest;
    }
    match rng.below(3) {
        0 => format!("{:e}", f).replace('e', if rng.bool() { "e" } else { "E" }),
        1 => {
            // explicit + on the exponent
            let s = format!("{:e}", f);
            match s.split_once('e') {
                Some((m, e)) if !e.starts_with('-') => format!("{}e+{}", m, e),
                _ => s,
            }
        }
        _ => {
            // ensure a fraction is present: d.ddde<exp> with trailing zero
            let s = format!("{:e}", f);
            match s.split_once('e') {
                Some((m, e)) if !m.contains('.') => format!("{}.0e{}", m, e),
                _ => s,
            }
        }
    }
}

fn scheme_string(rng: &mut Rng, alt: bool, s: &str) -> String {
    let mut out = String::from("\"");
    for c in s.chars() {
        let must_escape = c == '"' || c == '\\';
        if !must_escape && !(alt && rng.chance(1, 4)) {
            // raw (including control characters, which are legal inside a string)
            out.push(c);
            continue;
        }
        let mn = match c {
            '"' => Some("\\\""),
            '\\' => Some("\\\\"),
            '\x07' => Some("\\a"),
            '\x08' => Some("\\b"),
            '\t' => Some("\\t"),
            '\n' => Some("\\n"),
            '\r' => Some("\\r"),
            '\x0B' => Some("\\v"),
            '\x0C' => Some("\\f"),
            '|' => Some("\\|"),
            _ => None,
        };
        match mn {
            Some(m) if must_escape || rng.bool() => out.push_str(m),
            _ => {
                if rng.bool() {
                    out.push_str(&format!("\\x{:x};", c as u32));
                } else {
                    out.push_str(&format!("\\x{:04X};", c as u32));
                }
            }
        }
    }
    out.push('"');
    out
}

fn elisp_string(rng: &mut Rng, alt: bool, s: &str) -> String {
    // multibyte strings only: never use \x / octal escapes (they could make the
    // string unibyte); use \uNNNN, \U00NNNNNN, \N{U+X} and mnemonic escapes.
    let mut out = String::from("\"");
    for c in s.chars() {
        let must_escape = c == '"' || c == '\\';
        if !must_escape && !(alt && rng.chance(1, 4)) {
            out.push(c);
            continue;
        }
        let mn = match c {
            '"' => Some("\\\""),
            '\\' => Some("\\\\"),
            '\x07' => Some("\\a"),
            '\x08' => Some("\\b"),
            '\t' => Some("\\t"),
            '\n' => Some("\\n"),
            '\r' => Some("\\r"),
            '\x0B' => Some("\\v"),
            '\x0C' => Some("\\f"),
            '\x1B' => Some("\\e"),
            ' ' => Some("\\s"),
            '\x7F' => Some("\\d"),
            _ => None,
        };
        match mn {
            Some(m) if must_escape || rng.bool() => out.push_str(m),
            _ => match rng.below(3) {
                0 if (c as u32) <= 0xFFFF => out.push_str(&format!("\\u{:04x}", c as u32)),
                1 => out.push_str(&format!("\\U{:08X}", c as u32)),
                _ => out.push_str(&format!("\\N{{U+{:X}}}", c as u32)),
            },
        }
    }
    out.push('"');
    out
}

fn scheme_char(rng: &mut Rng, alt: bool, c: char) -> String {
    let n = c as u32;
    if alt && rng.chance(1, 3) {
        for (name, ch) in SCHEME_CHAR_NAMES {
            if *ch == c && rng.bool() {
                return format!("#\\{}", name);
            }
        }
        return format!("#\\x{:x}", n);
    }
    if (33..127).contains(&n) {
        // 'x' followed by hex digits would be a hex escape; a lone #\x is fine
        format!("#\\{}", c)
    } else if n > 127 && alt && rng.bool() {
        format!("#\\{}", c) // raw UTF-8
    } else {
        format!("#\\x{:X}", n)
    }
}

fn elisp_char(rng: &mut Rng, alt: bool, c: char) -> String {
    let n = c as u32;
    if alt && rng.chance(1, 3) {
        return match rng.below(4) {
            0 => format!("?\\x{:x}", n),
            1 if n <= 0xFFFF => format!("?\\u{:04x}", n),
            2 => format!("?\\U{:08x}", n),
            _ => format!("?\\N{{U+{:x}}}", n),
        };
    }
    if (33..127).contains(&n) {
        if b"()[]\\;|'`#.,\"?".contains(&(n as u8)) {
            format!("?\\{}", c)
        } else {
            format!("?{}", c)
        }
    } else if n > 127 && alt && rng.bool() {
        format!("?{}", c)
    } else {
        format!("?\\x{:x}", n)
    }
}

fn quote_sigil(v: &Value) -> Option<(&'static str, &Value)> {
    // (quote x) etc. as a proper two-element list
    let c = v.as_cons()?;
    let head = c.car().as_symbol()?;
    let sig = match head {
        "quote" => "'",
        "quasiquote" => "`",
        "unquote" => ",",
        "unquote-splicing" => ",@",
        _ => return None,
    };
    let rest = c.cdr().as_cons()?;
    if !rest.cdr().is_null() {
        return None;
    }
    Some((sig, rest.car()))
}

pub fn tokens(rng: &mut Rng, cfg: &LayoutCfg, v: &Value, out: &mut Vec<Tok>) {
    let alt = cfg.alt_spellings;
    match v {
        Value::Nil => out.push(tok("#nil", Kind::Atom)),
        Value::Null => {
            if cfg.lang == Lang::Elisp && rng.bool() {
                out.push(tok("nil", Kind::Atom));
            } else {
                out.push(tok("(", Kind::Open));
                out.push(tok(")", Kind::Close));
            }
        }
        Value::Bool(b) => out.push(tok(if *b { "#t" } else { "#f" }, Kind::Atom)),
        Value::Number(n) => {
            let text = if let Some(u) = n.as_u64() {
                spell_int(rng, cfg, false, u)
            } else if let Some(i) = n.as_i64() {
                spell_int(rng, cfg, true, i.unsigned_abs())
            } else {
                spell_float(rng, alt, n.as_f64().unwrap())
            };
            out.push(tok(text, Kind::Atom));
        }
        Value::Char(c) => out.push(tok(
            match cfg.lang {
                Lang::Scheme => scheme_char(rng, alt, *c),
                Lang::Elisp => elisp_char(rng, alt, *c),
            },
            Kind::Atom,
        )),
        Value::String(s) => out.push(tok(
            match cfg.lang {
                Lang::Scheme => scheme_string(rng, alt, s),
                Lang::Elisp => elisp_string(rng, alt, s),
            },
            Kind::Atom,
        )),
        Value::Symbol(s) => out.push(tok(s.to_string(), Kind::Atom)),
        Value::Keyword(s) => out.push(tok(
            match cfg.lang {
                Lang::Scheme => format!("#:{}", s),
                Lang::Elisp => format!(":{}", s),
            },
            Kind::Atom,
        )),
        Value::Bytes(b) => match cfg.lang {
            Lang::Scheme => {
                out.push(tok(if alt && rng.bool() { "#vu8(" } else { "#u8(" }, Kind::HashOpen));
                for x in b.iter() {
                    let t = if alt {
                        match rng.below(4) {
                            0 => format!("#x{:x}", x),
                            1 => format!("#o{:o}", x),
                            2 => format!("#b{:b}", x),
                            _ => format!("{}", x),
                        }
                    } else {
                        format!("{}", x)
                    };
                    out.push(tok(t, Kind::Atom));
                }
                out.push(tok(")", Kind::Close));
            }
            Lang::Elisp => {
                // unibyte string; needs at least one byte escape to be unibyte
                let mut s = String::from("\"");
                for (i, x) in b.iter().enumerate() {
                    if i == 0 || *x >= 0x80 || *x < 0x20 || *x == b'"' || *x == b'\\' || *x == 0x7f || rng.bool() {
                        s.push_str(&format!("\\{:03o}", x));
                    } else {
                        s.push(*x as char);
                    }
                }
                s.push('"');
                out.push(tok(s, Kind::Atom));
            }
        },
        Value::Vector(xs) => {
            let (o, c) = match cfg.lang {
                Lang::Scheme => ("#(", ")"),
                Lang::Elisp => ("[", "]"),
            };
            out.push(tok(o, if o == "[" { Kind::Open } else { Kind::HashOpen }));
            for x in xs.iter() {
                tokens(rng, cfg, x, out);
            }
            out.push(tok(c, Kind::Close));
        }
        Value::Cons(cell) => {
            if alt && rng.chance(1, 2) {
                if let Some((sig, inner)) = quote_sigil(v) {
                    out.push(tok(sig, Kind::Prefix));
                    tokens(rng, cfg, inner, out);
                    return;
                }
            }
            let (o, c) = if cfg.brackets_as_list && alt && rng.chance(1, 4) { ("[", "]") } else { ("(", ")") };
            out.push(tok(o, Kind::Open));
            let mut cur = cell;
            loop {
                tokens(rng, cfg, cur.car(), out);
                match cur.cdr() {
                    Value::Null => break,
                    Value::Cons(next) => {
                        // optionally spell the rest of a list in dotted form: (a . (b c))
                        // (only with a parenthesised tail and a ')' closer -- the
                        // documented dotted-tail syntax)
                        if alt && o == "(" && rng.chance(1, 8) {
                            out.push(tok(".", Kind::Dot));
                            let rest = cur.cdr();
                            let save = *cfg;
                            let mut plain = save;
                            plain.brackets_as_list = false;
                            // do not let the tail choose quote shorthand: (a . 'b) means (a quote b)
                            let mut sub = Vec::new();
                            tokens_list_plain(rng, &plain, rest, &mut sub);
                            out.extend(sub);
                            break;
                        }
                        cur = next;
                    }
                    tail => {
                        out.push(tok(".", Kind::Dot));
                        tokens(rng, cfg, tail, out);
                        break;
                    }
                }
            }
            out.push(tok(c, Kind::Close));
        }
    }
}

/// A cons value spelled as a plain parenthesised list (no sigils, no brackets).
fn tokens_list_plain(rng: &mut Rng, cfg: &LayoutCfg, v: &Value, out: &mut Vec<Tok>) {
    match v {
        Value::Cons(cell) => {
            out.push(tok("(", Kind::Open));
            let mut cur = cell;
            loop {
                tokens(rng, cfg, cur.car(), out);
                match cur.cdr() {
                    Value::Null => break,
                    Value::Cons(next) => cur = next,
                    tail => {
                        out.push(tok(".", Kind::Dot));
                        tokens(rng, cfg, tail, out);
                        break;
                    }
                }
            }
            out.push(tok(")", Kind::Close));
        }
        other => tokens(rng, cfg, other, out),
    }
}

/// Is a separator required between adjacent tokens a and b?
fn sep_required(a: &Tok, b: &Tok) -> bool {
    use Kind::*;
    match (a.kind, b.kind) {
        (Open, _) | (HashOpen, _) => false,
        (_, Close) => false,
        (Prefix, _) => a.text == "," && b.text.starts_with('@'),
        (Close, Dot) => false,
        (Close, Open) | (Close, HashOpen) | (Close, Atom) | (Close, Prefix) => {
            // after a closer anything may follow directly
            false
        }
        (Dot, Open) => b.text != "(",
        (Dot, _) => true,
        (Atom, Open) => {
            // a( is fine: '(' and '[' terminate every atom
            // ...except after a character literal or '#' forms where R7RS wants a delimiter: both are delimiters
            false
        }
        // a string literal is self-delimiting on both sides: `"` ends every other
        // atom, and anything may follow the closing quote
        (Atom, Atom) if b.text.starts_with('"') => false,
        (Atom, _) if a.text.len() >= 2 && a.text.starts_with('"') && a.text.ends_with('"') => false,
        (Atom, HashOpen) | (Atom, Atom) | (Atom, Prefix) | (Atom, Dot) => true,
    }
}

/// Join tokens with random trivia. Returns the text and, for each token, its
/// byte range in the text.
pub fn join(rng: &mut Rng, set: TriviaSet, toks: &[Tok], lead_trail: bool) -> String {
    let mut out = String::new();
    if lead_trail {
        trivia(rng, set, 0, &mut out);
    }
    for (i, t) in toks.iter().enumerate() {
        if i > 0 {
            let req = sep_required(&toks[i - 1], t);
            trivia(rng, set, if req { 1 } else { 0 }, &mut out);
        }
        out.push_str(&t.text);
    }
    if lead_trail {
        trivia(rng, set, 0, &mut out);
        if rng.chance(1, 8) {
            // final comment without newline
            if !out.ends_with(|c: char| c == ' ' || c == '\n' || c == '\t' || c == '\r' || c == ')' || c == ']' || c == '"') {
                out.push(' ');
            }
            out.push_str("; trailing comment");
        }
    }
    out
}

/// Minimal layout (single spaces where required, nothing elsewhere).
pub fn join_minimal(toks: &[Tok]) -> String {
    let mut out = String::new();
    for (i, t) in toks.iter().enumerate() {
        if i > 0 && sep_required(&toks[i - 1], t) {
            out.push(' ');
        }
        out.push_str(&t.text);
    }
    out
}

pub fn layout(rng: &mut Rng, cfg: &LayoutCfg, v: &Value) -> String {
    let mut toks = Vec::new();
    tokens(rng, cfg, v, &mut toks);
    join(rng, cfg.trivia, &toks, true)
}

// --------------------------------------------------------------- token soup

pub const SOUP: &[&str] = &[
    "(", ")", "[", "]", "#(", "#u8(", "#vu8(", " ", " ", " ", "\n", "\t", "\r", "\x0C", ".", " . ", "'", "`", ",", ",@",
    "#t", "#f", "#nil", "#n", "#true", "#", "#:", "#:kw", ":kw", "kw:", ":kw:", "::", ":", "nil", "t", "nil:", "nilx",
    "0", "1", "-1", "+1", "42", "255", "256", "007", "1.5", "-0.0", "1e3", "1E-3", "1.5e+10", "1.", ".5", "1e", "1e+",
    "1.5.6", "1+", "1-", "1/2", "0x10", "12ab", "#x1F", "#xFF", "#b101", "#o17", "#d10", "#x", "#b2", "#xg", "#x-1",
    "18446744073709551615", "18446744073709551616", "-9223372036854775808", "-9223372036854775809", "1e400", "1e-400",
    "+", "-", "...", "->x", "+a", "-a", "+.a", "..", ".a", "a.b", "a", "abc", "foo-bar", "λ", "λx", "x中", "é:", "$a",
    "!x", "<=", "a|b", "a#b", "a'b", "a\"b\"", "#%app", "#%", "?a", "?\\(", "?\\x41", "?", "?\\^a", "?\\N{U+41}", "? ",
    "#\\a", "#\\x", "#\\x41", "#\\space", "#\\sp", "#\\newline", "#\\λ", "#\\(", "#\\", "#\\x110000", "#\\xD800",
    "\"\"", "\"a\"", "\"a b\"", "\"\\n\"", "\"\\x41;\"", "\"\\x41\"", "\"\\q\"", "\"\\", "\"abc", "\"λ\"", "\"\\u00e9\"",
    "\"\\101\"", "\"\\xff\"", "\"\\N{U+3bb}\"", "\"\\^a\"", "\"a\\ b\"", "\"\\U0001F600\"", "\"\\xD800;\"", "\"\\x110000;\"",
    ".a:", "...:", ".b", "(a .b: c)", "12#t", "1#", ".#t", "-#t", "a .", "(a . b )", "(a . b ; c\n)", "\"\u{e9}\\101\"", "\"\\101\u{e9}\"", "\"\u{3bb}\\x41\"", "\"\\x41\\ \u{3bb}\"", "\"\\xe9;\"", "\"a\\x80;b\"", "0.0000001", "+1e-7", "#d5e-9",
    // lead-ins and separators a transport may add; error arms of escapes; radix literals beyond 64 bits
    "\u{feff}", "\0", "\u{a0}", "\u{2028}", "\x0B", "\x1A", "\u{feff}(a)", "\"\\U0FFFFFFF\"", "\"\\U00110000\"", "\"\\uD800\"", "\"\\777777777777\"", "\"\\N{U+110000}\"", "\"\\N{U+D800}\"", "\"\\N{LATIN}\"",
    "?\\U0FFFFFFF", "?\\777", "?\\C-a", "?\\M-a", "#b1111111111111111111111111111111111111111111111111111111111111111111111", "#b1111111111111111111111111111111111111111111111111111111111111111111111e1", "#b11111111111111111111111111111111111111111111111111111111111111111111112", "#b1111111111111111111111111111111111111111111111111111111111111111111111.1", "#o777777777777777777777777777777", "#o7777777777777777777777777777778", "#o777777777777777777777777777777e2", "#x11111111111111111111.5", "#xffffffffffffffffffff", "#x11111111111111111111g", "1e+3", "2.5E+2",
    ";c\n", ";", "; (\n", "#|", "|", "||", "|a b|", "{", "}", "\\", "\\a", "@", ",@a", "^", "~", "_", "%",
];

pub const CORRUPT: &[u8] = &[0xFF, 0xC3, 0xE2, 0x80, 0x00, 0xF0, 0xED, 0xA0, 0xC0, 0xF8, 0x7F, 0x0C];

pub fn token_soup(rng: &mut Rng, max_items: usize) -> Vec<u8> {
    let n = rng.range(1, max_items);
    let mut out: Vec<u8> = Vec::new();
    for _ in 0..n {
        out.extend_from_slice((*rng.pick::<&str>(SOUP)).as_bytes());
        if rng.chance(1, 3) {
            out.push(b' ');
        }
    }
    out
}

pub fn corrupt(rng: &mut Rng, bytes: &mut Vec<u8>) {
    if bytes.is_empty() {
        bytes.push(*rng.pick(CORRUPT));
        return;
    }
    let k = rng.range(1, 2);
    for _ in 0..k {
        let pos = rng.below(bytes.len() + 1);
        let b = *rng.pick(CORRUPT);
        if rng.bool() && pos < bytes.len() {
            bytes[pos] = b;
        } else {
            bytes.insert(pos, b);
        }
    }
}

/// Byte-level mutation of (typically printer-produced) text.
pub fn mutate(rng: &mut Rng, bytes: &[u8]) -> Vec<u8> {
    let mut b = bytes.to_vec();
    let k = rng.range(1, 3);
    for _ in 0..k {
        if b.is_empty() {
            b.push(rng.below(256) as u8);
            continue;
        }
        let pos = rng.below(b.len());
        match rng.below(6) {
            0 => b[pos] ^= 1 << rng.below(8),
            1 => {
                b.remove(pos);
            }
            2 => {
                let x = b[pos];
                b.insert(pos, x);
            }
            3 => b.truncate(pos),
            4 => b[pos] = *rng.pick(b"()[]\"\\#.;'`, \n|:"),
            _ => {
                let piece = (*rng.pick::<&str>(SOUP)).as_bytes();
                for (i, x) in piece.iter().enumerate() {
                    b.insert(pos + i, *x);
                }
            }
        }
    }
    b
}
