//! Text generators (token soup, layout printer, mutations).
