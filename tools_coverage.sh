#!/usr/bin/env bash
# Measures which lines of /repo the quick-tier workloads actually execute
# (source-based coverage, nightly toolchain's llvm-cov). Not a check: a tool for
# finding paths the workloads do not drive. Output: coverage/summary.txt and
# coverage/uncovered.txt under /verif (small text files), scratch under target/cov.
#   ./tools_coverage.sh [tier] [props...]
set -u
cd "$(dirname "$0")"
ROOT=$(pwd)
TIER=${1:-quick}; shift || true
PROPS=${*:-C01 C02 C03 C04 C05 C06 C07 C08 C10 C11 C12 C13 C14 C15 C16 C17 C18 C19 C20}
export CARGO_NET_OFFLINE=true
T="$ROOT/target"
SYS=$(rustc +nightly --print sysroot)
LLVM="$SYS/lib/rustlib/x86_64-unknown-linux-gnu/bin"
OUT="$ROOT/coverage"; mkdir -p "$OUT"
SCR="$T/cov-scratch"; rm -rf "$SCR"; mkdir -p "$SCR/ev" "$SCR/rp" "$SCR/prof"
( cd harness && RUSTFLAGS="--cfg lexpr_verif -Cinstrument-coverage" cargo +nightly build --offline --quiet \
    --profile mon --target-dir "$T/cov" --bin vcheck ) || { echo "coverage build failed"; exit 2; }
( cd harness && RUSTFLAGS="--cfg lexpr_verif -Cinstrument-coverage" cargo +nightly build --offline --quiet \
    --profile mon --no-default-features --target-dir "$T/cov-nofast" --bin vcheck ) || { echo "coverage build (nofast) failed"; exit 2; }
BIN="$T/cov/mon/vcheck"
export VH_NOFAST_BIN="$T/cov-nofast/mon/vcheck"
export VH_REL_BIN="$T/rel/release/vcheck" VH_DEV_BIN="$T/dev/debug/vcheck" VH_ROOT="$ROOT" VH_TARGET="$T"
for p in $PROPS; do
  LLVM_PROFILE_FILE="$SCR/prof/$p-%p.profraw" "$BIN" check "$p" --tier "$TIER" --seed "${VERIF_SEED:-1}" \
    --evidence "$SCR/ev/$p.json" --findings "$ROOT/known_findings.json" --replays "$SCR/rp" | tail -1
done
"$LLVM/llvm-profdata" merge -sparse "$SCR"/prof/*.profraw -o "$SCR/all.profdata"
"$LLVM/llvm-cov" report "$BIN" -object "$VH_NOFAST_BIN" -instr-profile="$SCR/all.profdata" \
   --ignore-filename-regex='(/\.cargo/|/rustc/|/verif/)' > "$OUT/summary.txt"
"$LLVM/llvm-cov" show "$BIN" -object "$VH_NOFAST_BIN" -instr-profile="$SCR/all.profdata" \
   --ignore-filename-regex='(/\.cargo/|/rustc/|/verif/)' --show-line-counts-or-regions=false > "$SCR/show.txt"
# uncovered executable lines: "   NN|      0|source"
awk '/^\/repo\//{f=$0} /^ +[0-9]+\| +0\|/{print f" "$0}' "$SCR/show.txt" > "$OUT/uncovered.txt"
cat "$OUT/summary.txt"
wc -l "$OUT/uncovered.txt"
